#!/bin/sh
# offline setup: contracts libraries beside the repo's interpreter, scratch dirs, self-test of the reference model
HERE="$(cd "$(dirname "$0")" && pwd)"
cd "$HERE" || exit 1
export PYTHONHASHSEED=0 PIP_NO_INDEX=1
export PYTHONPATH="$HERE${PYTHONPATH:+:$PYTHONPATH}"
/venv/bin/python - <<'PY' || exit 1
from uxmon import env
env.ensure_dirs()
assert env.ensure_deps(), "offline install of icontract/deal failed"
import sys; sys.path.insert(0, env.DEPS)
import icontract, deal
from uxmon import selftest
selftest.main()
print("uxmon setup ok")
PY
