"""Which source lines of the anchored library code did a run actually execute?

sys.monitoring LINE events, disabled per location after the first hit (negligible overhead).  The runner maps the hit
lines onto the line ranges named in the property's anchors.mechanism[].where and reports hit / executable lines per
mechanism in the evidence file.  numba-compiled kernels are invisible here except in JIT-off modes."""

import json
import os
import re
import sys

from . import env

_hits = set()
_on = False


def _code_objects():
    """code objects of every function / method / property defined in the uxarray package (after import)"""
    import types

    seen, out = set(), []

    def add_code(co):
        if id(co) in seen or "/uxarray/" not in co.co_filename:
            return
        seen.add(id(co))
        out.append(co)
        for c in co.co_consts:
            if isinstance(c, types.CodeType):
                add_code(c)

    def add_obj(o, depth=0):
        f = getattr(o, "py_func", o)  # numba dispatchers
        if isinstance(f, (types.FunctionType, types.MethodType)):
            add_code(f.__code__)
        elif isinstance(f, (staticmethod, classmethod)):
            add_obj(f.__func__)
        elif isinstance(f, property):
            for g in (f.fget, f.fset, f.fdel):
                if g is not None:
                    add_obj(g)
        elif isinstance(f, type) and depth < 2 and getattr(f, "__module__", "").startswith("uxarray"):
            for v in vars(f).values():
                add_obj(v, depth + 1)

    for name, mod in list(sys.modules.items()):
        if name == "uxarray" or name.startswith("uxarray."):
            for v in list(vars(mod).values()):
                if getattr(v, "__module__", None) and str(getattr(v, "__module__", "")).startswith("uxarray"):
                    add_obj(v)
    return out


def start():
    """Local LINE events on the library's own code objects only (global events would also fire inside numba's compiler)."""
    global _on
    if _on or not hasattr(sys, "monitoring"):
        return
    mon = sys.monitoring
    tool = mon.COVERAGE_ID
    try:
        mon.use_tool_id(tool, "uxmon-cover")
    except ValueError:
        return
    import uxarray  # noqa: F401

    def on_line(code, line):
        fn = code.co_filename
        _hits.add((fn[fn.rindex("/uxarray/") + 1:], line))
        return mon.DISABLE

    mon.register_callback(tool, mon.events.LINE, on_line)
    for co in _code_objects():
        try:
            mon.set_local_events(tool, co, mon.events.LINE)
        except Exception:
            pass
    _on = True


def result():
    out = {}
    for fn, ln in _hits:
        out.setdefault(fn, []).append(ln)
    return {k: sorted(v) for k, v in out.items()}


# ---------------------------------------------------------------- runner side
def _executable_lines(path):
    """all line numbers that carry code in a source file"""
    import warnings

    try:
        src = open(path).read()
        with warnings.catch_warnings():
            warnings.simplefilter("ignore")
            top = compile(src, path, "exec")
    except Exception:
        return set()
    lines, stack = set(), [top]
    while stack:
        co = stack.pop()
        for _, _, ln in co.co_lines():
            if ln is not None:
                lines.add(ln)
        for c in co.co_consts:
            if hasattr(c, "co_lines"):
                stack.append(c)
    return lines


def anchors_for(prop):
    p = os.path.join(env.ROOT, "properties.jsonl")
    for l in open(p):
        d = json.loads(l)
        if d["id"] == prop:
            return d["anchors"].get("mechanism", [])
    return []


PINNED = "f63d86eb"  # the snapshot the anchors' line numbers refer to


def _defs(src):
    """[(qualified name, first line, last line)] of every function in a source text"""
    import ast

    out = []

    def walk(node, prefix):
        for ch in ast.iter_child_nodes(node):
            if isinstance(ch, (ast.FunctionDef, ast.AsyncFunctionDef)):
                out.append((prefix + ch.name, ch.lineno, ch.end_lineno))
                walk(ch, prefix + ch.name + ".")
            elif isinstance(ch, ast.ClassDef):
                walk(ch, prefix + ch.name + ".")
            else:
                walk(ch, prefix)

    import warnings

    try:
        with warnings.catch_warnings():
            warnings.simplefilter("ignore")
            walk(ast.parse(src), "")
    except SyntaxError:
        pass
    return out


def _current_ranges(repo, rel, lo, hi):
    """The anchors give line ranges of the pinned snapshot; fix: commits move code.  Translate a pinned range into the
    current line ranges of the functions it overlapped (by qualified name)."""
    import subprocess

    try:
        old = subprocess.run(["git", "-C", "/repo", "show", "%s:%s" % (PINNED, rel)], capture_output=True, text=True, timeout=20).stdout
    except Exception:
        old = ""
    names = [n for n, a, b in _defs(old) if a <= hi and b >= lo]
    try:
        cur = _defs(open(os.path.join(repo, rel)).read())
    except OSError:
        cur = []
    rng = [(a, b) for n, a, b in cur if n in names]
    # keep innermost functions only when an enclosing one is listed as well
    return names, (rng or [(lo, hi)])


def summarize(prop, merged_hits, repo=None):
    """merged_hits: {relative file: set(lines)} -> list of {mechanism, functions, executable_lines, lines_hit}"""
    repo = repo or env.REPO
    out = []
    for mech in anchors_for(prop):
        where = mech.get("where", "")
        ex_all, hit_all, fn_all = set(), set(), []
        cur_file = None
        for piece in re.split(r"[;,]\s*", where):
            piece = piece.strip()
            m = re.match(r"^(?:(\S+\.py):)?\s*(\d+)(?:-(\d+))?$", piece)
            if not m:
                continue
            if m.group(1):
                cur_file = m.group(1)
            if cur_file is None:
                continue
            lo = int(m.group(2))
            hi = int(m.group(3) or lo)
            names, ranges = _current_ranges(repo, cur_file, lo, hi)
            exe = _executable_lines(os.path.join(repo, cur_file))
            for a, b in ranges:
                ex_all |= {(cur_file, ln) for ln in exe if a <= ln <= b}
                hit_all |= {(cur_file, ln) for ln in merged_hits.get(cur_file, ()) if a <= ln <= b}
            fn_all += ["%s:%s" % (cur_file.split("/")[-1], n) for n in names]
        out.append({"mechanism": mech.get("name", "")[:90], "functions": sorted(set(fn_all))[:12], "executable_lines": len(ex_all), "lines_hit": len(hit_all & ex_all)})
    return out
