"""Exact spherical predicates on integer direction vectors (Python ints, no rounding).

A direction is a non-zero integer 3-vector; the point it denotes is its normalisation.  The
minor arc a->b (a, b not parallel) is { s*a + t*b : s, t >= 0 } normalised.  Every predicate
here is decided with integer arithmetic only; floating point is used solely to measure
*margins* (how far a case is from a decision boundary), with a 10x safety factor at the
call sites, so that a case is only ever generated when its exact classification is beyond
doubt for the float64 images of the same vectors.
"""

import math

import numpy as np


def cross(a, b):
    return (a[1] * b[2] - a[2] * b[1], a[2] * b[0] - a[0] * b[2], a[0] * b[1] - a[1] * b[0])


def dot(a, b):
    return a[0] * b[0] + a[1] * b[1] + a[2] * b[2]


def neg(a):
    return (-a[0], -a[1], -a[2])


def lin(s, a, t, b):
    return (s * a[0] + t * b[0], s * a[1] + t * b[1], s * a[2] + t * b[2])


def is_zero(a):
    return a[0] == 0 and a[1] == 0 and a[2] == 0


def on_circle(p, a, b):
    return dot(cross(a, b), p) == 0


def on_arc(p, a, b):
    """p (direction) lies on the closed minor arc a->b.  Exact."""
    n = cross(a, b)
    if is_zero(n):
        raise ValueError("degenerate arc")
    if dot(n, p) != 0:
        return False
    return dot(cross(a, p), n) >= 0 and dot(cross(p, b), n) >= 0 and not is_zero(p) and (dot(p, a) > 0 or dot(p, b) > 0)


def crossing_dir(a, b, c, d):
    """One of the two directions common to the great circles of arcs (a,b) and (c,d)."""
    return cross(cross(a, b), cross(c, d))


def arc_arc_common(a, b, c, d):
    """Exact list of directions common to both closed minor arcs (different great circles)."""
    x = crossing_dir(a, b, c, d)
    if is_zero(x):
        raise ValueError("same great circle")
    out = []
    for cand in (x, neg(x)):
        if on_arc(cand, a, b) and on_arc(cand, c, d):
            out.append(cand)
    return out


def apex(a, b, which):
    """Direction of the point of highest ('max') / lowest ('min') latitude on the *great circle*
    through a, b:  |n|^2 z - n_z n  (and its negative).  None when the circle is the equator."""
    n = cross(a, b)
    nn = dot(n, n)
    p = (-n[2] * n[0], -n[2] * n[1], nn - n[2] * n[2])
    if is_zero(p):
        return None
    return p if which == "max" else neg(p)


# ---------------------------------------------------------------- float side (margins, images)
def fvec(a):
    """float64 unit vector of an integer direction (correctly rounded conversion of each int)."""
    v = np.array([float(a[0]), float(a[1]), float(a[2])])
    m = max(abs(v[0]), abs(v[1]), abs(v[2]))
    v = v / m
    return v / math.sqrt(v[0] * v[0] + v[1] * v[1] + v[2] * v[2])


def ang(u, v):
    c = np.cross(u, v)
    return math.atan2(math.sqrt(c[0] * c[0] + c[1] * c[1] + c[2] * c[2]), float(np.dot(u, v)))


def lat_of(a):
    """latitude (rad) of integer direction a, via atan2 (well conditioned everywhere)."""
    return math.atan2(float(a[2]), math.sqrt(float(a[0] * a[0] + a[1] * a[1])))


def rot_z_exact(a, k):
    """Exact rotations about the polar axis that map integer directions to integer directions:
    k=1,2,3: quarter turns; k=4: (3,4,5) triple; k=5: (5,12,13) triple; k=6: (8,15,17)."""
    x, y, z = a
    if k == 0:
        return (x, y, z)
    if k == 1:
        return (-y, x, z)
    if k == 2:
        return (-x, -y, z)
    if k == 3:
        return (y, -x, z)
    p, q, r = {4: (3, 4, 5), 5: (5, 12, 13), 6: (8, 15, 17)}[k]
    return (p * x - q * y, q * x + p * y, r * z)


def rot_z_float(k):
    if k in (0, 1, 2, 3):
        c, s = [(1, 0), (0, 1), (-1, 0), (0, -1)][k]
        return np.array([[c, -s, 0], [s, c, 0], [0, 0, 1.0]])
    p, q, r = {4: (3, 4, 5), 5: (5, 12, 13), 6: (8, 15, 17)}[k]
    c, s = p / r, q / r
    return np.array([[c, -s, 0], [s, c, 0], [0, 0, 1.0]])
