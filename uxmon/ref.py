"""Independent reference model (shares no code with uxarray).

Mesh model: nodes are unit vectors (n, 3); faces are lists of node ids, counter-clockwise
seen from outside the sphere.  Everything here is deliberately naive (sets and dicts).
"""

import math

import numpy as np


# --------------------------------------------------------------------------- sphere
def lonlat_to_xyz(lon_deg, lat_deg):
    lon = np.deg2rad(np.asarray(lon_deg, dtype=float))
    lat = np.deg2rad(np.asarray(lat_deg, dtype=float))
    return np.stack(
        [np.cos(lat) * np.cos(lon), np.cos(lat) * np.sin(lon), np.sin(lat)], axis=-1
    )


def xyz_to_lonlat(xyz):
    """degrees, lon in (-180, 180]."""
    xyz = np.asarray(xyz, dtype=float)
    n = np.linalg.norm(xyz, axis=-1)
    x, y, z = xyz[..., 0] / n, xyz[..., 1] / n, xyz[..., 2] / n
    lon = np.rad2deg(np.arctan2(y, x))
    lat = np.rad2deg(np.arctan2(z, np.hypot(x, y)))  # (asin(z) loses eps / cos(lat) near a pole)
    return lon, lat


def unit(v):
    v = np.asarray(v, dtype=float)
    return v / np.linalg.norm(v, axis=-1, keepdims=True)


def angle(a, b):
    """Angular distance (rad) between direction vectors, robust atan2 form."""
    a = np.asarray(a, dtype=float)
    b = np.asarray(b, dtype=float)
    c = np.cross(a, b)
    return np.arctan2(np.linalg.norm(c, axis=-1), np.sum(a * b, axis=-1))


def tri_area(a, b, c):
    """Van Oosterom-Strackee solid angle of a spherical triangle (unit vectors); signed."""
    num = np.dot(a, np.cross(b, c))
    den = 1.0 + np.dot(a, b) + np.dot(b, c) + np.dot(c, a)
    return 2.0 * math.atan2(num, den)


def poly_area_fan(P):
    """Signed area of spherical polygon P (k,3) as fan sum from corner 0 (CCW positive)."""
    s = 0.0
    for i in range(1, len(P) - 1):
        s += tri_area(P[0], P[i], P[i + 1])
    return s


def poly_area_girard(P):
    """Area by Girard's theorem: sum of interior angles - (k-2) pi.  Convex CCW polygons."""
    k = len(P)
    tot = 0.0
    for i in range(k):
        a, b, c = P[i - 1], P[i], P[(i + 1) % k]
        # tangent directions at b towards a and c
        ta = a - np.dot(a, b) * b
        tc = c - np.dot(c, b) * b
        ang = math.atan2(np.dot(b, np.cross(tc, ta)), np.dot(ta, tc))
        if ang < 0:
            ang += 2 * math.pi
        tot += ang
    return tot - (k - 2) * math.pi


def slerp(a, b, t):
    """Points on the minor arc a->b at parameters t (array)."""
    w = angle(a, b)
    t = np.asarray(t, dtype=float)[:, None]
    if w < 1e-15:
        return np.repeat(a[None, :], len(t), axis=0)
    return (np.sin((1 - t) * w) * a[None, :] + np.sin(t * w) * b[None, :]) / np.sin(w)


def is_convex_ccw(P, tol=1e-12):
    """Every corner is a strict left turn seen from outside."""
    k = len(P)
    for i in range(k):
        a, b, c = P[i], P[(i + 1) % k], P[(i + 2) % k]
        if np.dot(np.cross(a, b), c) <= tol:
            return False
    return True


def is_convex_ccw_rel(P, min_turn=1e-6):
    """Every corner is a strict left turn of at least ~min_turn radians, whatever the size of the face."""
    k = len(P)
    for i in range(k):
        a, b, c = P[i], P[(i + 1) % k], P[(i + 2) % k]
        L = np.linalg.norm(b - a) * np.linalg.norm(c - b)
        if L == 0 or np.dot(np.cross(a, b), c) <= min_turn * L:
            return False
    return True


def point_in_convex(P, q, tol=0.0):
    k = len(P)
    for i in range(k):
        if np.dot(np.cross(P[i], P[(i + 1) % k]), q) < tol:
            return False
    return True


def diameter(P):
    d = 0.0
    for i in range(len(P)):
        for j in range(i + 1, len(P)):
            d = max(d, float(angle(P[i], P[j])))
    return d


def rotation_matrix(rng):
    """Random rotation (Haar) from a seeded numpy Generator."""
    q = rng.normal(size=4)
    q /= np.linalg.norm(q)
    a, b, c, d = q
    return np.array(
        [
            [a * a + b * b - c * c - d * d, 2 * (b * c - a * d), 2 * (b * d + a * c)],
            [2 * (b * c + a * d), a * a - b * b + c * c - d * d, 2 * (c * d - a * b)],
            [2 * (b * d - a * c), 2 * (c * d + a * b), a * a - b * b - c * c + d * d],
        ]
    )


def rotation_taking(u, v):
    """Rotation matrix R with R @ u == v (unit vectors)."""
    u = unit(u)
    v = unit(v)
    c = float(np.dot(u, v))
    ax = np.cross(u, v)
    s = np.linalg.norm(ax)
    if s < 1e-14:
        if c > 0:
            return np.eye(3)
        # 180 degrees about any axis orthogonal to u
        o = np.array([1.0, 0, 0]) if abs(u[0]) < 0.9 else np.array([0, 1.0, 0])
        ax = unit(np.cross(u, o))
        return 2 * np.outer(ax, ax) - np.eye(3)
    ax = ax / s
    K = np.array([[0, -ax[2], ax[1]], [ax[2], 0, -ax[0]], [-ax[1], ax[0], 0]])
    return np.eye(3) + s * K + (1 - c) * (K @ K)


def rot_z(deg):
    t = math.radians(deg)
    return np.array([[math.cos(t), -math.sin(t), 0], [math.sin(t), math.cos(t), 0], [0, 0, 1.0]])


# --------------------------------------------------------------------------- mesh model
def face_edges(face):
    """Ordered list of frozenset pairs: corner j -> corner j+1 cyclically."""
    k = len(face)
    return [frozenset((face[j], face[(j + 1) % k])) for j in range(k)]


def edge_set(faces):
    s = set()
    for f in faces:
        s.update(face_edges(f))
    return s


def edge_faces(faces):
    d = {}
    for fi, f in enumerate(faces):
        for e in face_edges(f):
            d.setdefault(e, []).append(fi)
    return d


def node_faces(faces, n_node):
    d = {i: set() for i in range(n_node)}
    for fi, f in enumerate(faces):
        for n in f:
            d[n].add(fi)
    return d


def face_neighbours(faces):
    """Multiset (sorted list) of neighbours per face, once per shared interior edge."""
    ef = edge_faces(faces)
    out = {i: [] for i in range(len(faces))}
    for e, fl in ef.items():
        if len(fl) == 2:
            out[fl[0]].append(fl[1])
            out[fl[1]].append(fl[0])
    return {k: sorted(v) for k, v in out.items()}


def is_manifold(faces):
    return all(len(v) <= 2 for v in edge_faces(faces).values())


def same_cycle(a, b, allow_reflection=False):
    a = list(a)
    b = list(b)
    if len(a) != len(b):
        return False
    if not a:
        return True
    n = len(a)
    cands = [b]
    if allow_reflection:
        cands.append(b[::-1])
    for c in cands:
        for s in range(n):
            if all(a[i] == c[(i + s) % n] for i in range(n)):
                return True
    return False


def same_cycle_pos(A, B, tol=1e-9, allow_reflection=False):
    """Cyclic equality of two corner-position rings ((k,3) unit vectors) within tol rad."""
    A = np.asarray(A)
    B = np.asarray(B)
    if A.shape != B.shape:
        return False
    n = len(A)
    cands = [B]
    if allow_reflection:
        cands.append(B[::-1])
    for C in cands:
        for s in range(n):
            R = np.roll(C, -s, axis=0)
            if np.all(angle(A, R) <= tol):
                return True
    return False


def same_cycle_pos_band(A, B, tol=1e-9, band_tol=1.5e-4):
    """Like same_cycle_pos, B being the model ring: a model corner inside the library's pole-snapping band (|z| > 1 - 1e-8) may be
    reported at the pole, every other corner must agree to tol (so neighbouring tiny faces at a pole are not confused)."""
    A, B = np.asarray(A), np.asarray(B)
    if A.shape != B.shape:
        return False
    n = len(A)
    tb = np.where(np.abs(B[:, 2]) > 1 - 1.01e-8, band_tol, tol)
    for s in range(n):
        if np.all(angle(A, np.roll(B, -s, axis=0)) <= np.roll(tb, -s)):
            return True
    return False


def lon_interval_cover(lons_rad):
    """Shortest circular interval [lo, hi] (lo may exceed hi when wrapping through 0/2pi)
    covering all given longitudes in [0, 2pi).  Returns (lo, hi, width)."""
    l = np.sort(np.mod(np.asarray(lons_rad, dtype=float), 2 * math.pi))
    if len(l) == 1:
        return l[0], l[0], 0.0
    gaps = np.diff(np.concatenate([l, [l[0] + 2 * math.pi]]))
    i = int(np.argmax(gaps))
    lo = l[(i + 1) % len(l)]
    hi = l[i]
    return lo, hi, 2 * math.pi - gaps[i]
