"""Process environment for every uxmon entry point.

Imported first by the runner and by every worker.  Sets up, offline:
  * /verif/.deps (icontract, deal) from the wheelhouse, if absent;
  * NUMBA_CACHE_DIR outside /repo (keyed on source stamps, so edited sources recompile);
  * deterministic hashing, quiet warnings.
"""

import os
import subprocess
import sys

ROOT = os.path.dirname(os.path.dirname(os.path.abspath(__file__)))
DEPS = os.path.join(ROOT, ".deps")
CACHE = os.path.join(ROOT, ".cache")
WORK = os.path.join(ROOT, ".work")
EVIDENCE = os.path.join(ROOT, "evidence")
REPLAYS = os.path.join(ROOT, "replays")
REPO = os.environ.get("UXMON_REPO", "/repo")
PY = os.environ.get("UXMON_PY", "/venv/bin/python")
WHEELS = "/opt/veriftools/wheels"
GUARD = "UXMON"


def ensure_dirs():
    for d in (CACHE, WORK, EVIDENCE, REPLAYS, os.path.join(CACHE, "numba")):
        os.makedirs(d, exist_ok=True)


def ensure_deps():
    """Install icontract + deal next to the repo's interpreter, offline."""
    marker = os.path.join(DEPS, "icontract")
    if os.path.isdir(marker) and os.path.isdir(os.path.join(DEPS, "deal")):
        return True
    os.makedirs(DEPS, exist_ok=True)
    cmd = [
        PY, "-m", "pip", "install", "--quiet", "--no-index", "--find-links", WHEELS,
        "--target", DEPS, "--upgrade", "icontract", "deal",
    ]
    env = dict(os.environ, PIP_NO_INDEX="1", PIP_DISABLE_PIP_VERSION_CHECK="1")
    r = subprocess.run(cmd, env=env, stdout=subprocess.PIPE, stderr=subprocess.STDOUT, text=True)
    if r.returncode != 0:
        sys.stderr.write("uxmon: dependency install failed:\n" + r.stdout + "\n")
        return False
    return True


def child_env(extra=None):
    env = dict(os.environ)
    env["PYTHONHASHSEED"] = "0"
    env["NUMBA_CACHE_DIR"] = os.path.join(CACHE, "numba")
    env[GUARD] = "1"
    env["PYTHONPATH"] = os.pathsep.join(
        [ROOT, DEPS] + ([env["PYTHONPATH"]] if env.get("PYTHONPATH") else [])
    )
    env["PYTHONWARNINGS"] = "ignore"
    env["MPLBACKEND"] = "Agg"
    env.setdefault("OMP_NUM_THREADS", "2")
    env.setdefault("OPENBLAS_NUM_THREADS", "1")
    env.setdefault("MKL_NUM_THREADS", "1")
    if extra:
        env.update(extra)
    return env
