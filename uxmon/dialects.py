"""Source writers: turn a model mesh + a dialect vector into a well-formed source of each
supported format.  Schemas (variable/dimension names, storage dtypes, where _FillValue and
start_index live) follow the sample files under test/meshfiles, then vary along the axes the
format documents.  Every writer returns (source, info) with

  info["expect"]   Mesh whose faces, in order, are what the source describes
  info["reflect"]  True if the source does not fix an orientation (GEOS-CS)
  info["dial"]     the dialect choices (JSON-able; used as mechanism features)
  info["supplied"] tables / centres / areas the source supplies explicitly (model side)
"""

import math
import os

import numpy as np
import xarray as xr

from . import gen, ref

INT_FILL = np.iinfo(np.intp).min


def _pick(rng, seq):
    return seq[int(rng.integers(0, len(seq)))]


def _name(rng, base):
    return base if rng.random() < 0.4 else "%s_%d" % (_pick(rng, ["Mesh2", "m", "grd", "x"]), int(rng.integers(0, 99))) + base


def _lon(lon, conv):
    lon = np.array(lon, dtype=float)
    return np.mod(lon, 360.0) if conv == "0..360" else lon


def edges_of(m, rng=None):
    """Edge list in a (optionally shuffled) numbering, with per-face edge ids."""
    edges = sorted(ref.edge_set(m.faces), key=lambda e: sorted(e))
    if rng is not None:
        perm = rng.permutation(len(edges))
        edges = [edges[i] for i in perm]
    eid = {e: i for i, e in enumerate(edges)}
    return edges, eid


def face_centres(m):
    return np.array([ref.unit(m.ring_pos(i).mean(axis=0)) for i in range(m.n_face)])


# =============================================================================== UGRID
def ugrid_dataset(m, rng, force=None):
    d = {
        "start_index": _pick(rng, [0, 1, "absent"]),
        "start_index_type": _pick(rng, ["int", "str"]),
        "fill": _pick(rng, [-1, -999, 999999, "intmin", "nan"]),
        "dtype": _pick(rng, ["int32", "int64", "float64"]),
        "lon": _pick(rng, ["-180..180", "0..360"]),
        "names": _pick(rng, ["standard", "random"]),
        "face_dimension_attr": bool(rng.random() < 0.5),
        "node_dimension_attr": bool(rng.random() < 0.3),
        "transposed": bool(rng.random() < 0.12),
        "edge_table": bool(rng.random() < 0.3),
        "face_coords": bool(rng.random() < 0.3),
        "conn_via": _pick(rng, ["topology_attr", "cf_role"]),
        "coord_dtype": _pick(rng, ["float64", "float64", "float32"]),
        "more_tables": bool(rng.random() < 0.4),
        "edge_face_edge_last": bool(rng.random() < 0.5),
    }
    if rng.random() < 0.15:
        # storage already in the library's standard form (platform int, most negative fill)
        d["dtype"], d["fill"] = "int64", "intmin"
    if force:
        d.update(force)
    mixed = len({len(f) for f in m.faces}) > 1
    d["padded"] = mixed
    if d["fill"] == "nan":
        d["dtype"] = "float64"
    if d["fill"] == "intmin" and d["dtype"] == "int32":
        d["fill"] = -1
    if d["transposed"]:
        d["face_dimension_attr"] = True
    si = 0 if d["start_index"] == "absent" else d["start_index"]
    fillv = {"intmin": INT_FILL, "nan": np.nan}.get(d["fill"], d["fill"])
    d.setdefault("extra_width", _pick(rng, [0, 0, 0, 1, 2]))  # tables may be wider than the widest face (all-padding columns)
    d["padded"] = d["padded"] or d["extra_width"] > 0
    w = max(len(f) for f in m.faces) + d["extra_width"]
    if d["dtype"] == "float64":
        conn = np.full((m.n_face, w), np.nan if d["fill"] == "nan" else float(fillv))
    else:
        conn = np.full((m.n_face, w), fillv, dtype=d["dtype"])
    for i, f in enumerate(m.faces):
        conn[i, : len(f)] = np.array(f) + si
    rn = d["names"] == "random"
    N = {k: (_name(rng, k) if rn else k) for k in ["mesh", "node_x", "node_y", "face_nodes", "edge_nodes", "face_x", "face_y", "nNode", "nFace", "nMax", "nEdge", "Two"]}
    if d["coord_dtype"] == "float32":
        # single-precision node coordinates (what most model output carries): the mesh described is the one those values denote
        from . import ux as _ux

        m = _ux.mesh_f32(m)
    lon, lat = m.lonlat()
    if d["coord_dtype"] == "float32":
        lon, lat = np.asarray(lon, dtype=np.float32), np.asarray(lat, dtype=np.float32)
        if d["lon"] == "0..360":
            d["lon"] = "-180..180"  # (wrapping a float32 longitude into 0..360 would round again)
    ds = xr.Dataset()
    topo = {"cf_role": "mesh_topology", "topology_dimension": 2, "node_coordinates": "%s %s" % (N["node_x"], N["node_y"])}
    if d["conn_via"] == "topology_attr":
        topo["face_node_connectivity"] = N["face_nodes"]
    else:
        topo["face_node_connectivity"] = N["face_nodes"]  # required by the conventions; cf_role is set as well
    if d["face_dimension_attr"]:
        topo["face_dimension"] = N["nFace"]
    if d["node_dimension_attr"]:
        topo["node_dimension"] = N["nNode"]
    ds[N["node_x"]] = xr.DataArray(_lon(lon, d["lon"]), dims=[N["nNode"]], attrs={"standard_name": "longitude", "units": "degrees_east"})
    ds[N["node_y"]] = xr.DataArray(np.array(lat), dims=[N["nNode"]], attrs={"standard_name": "latitude", "units": "degrees_north"})
    attrs = {"cf_role": "face_node_connectivity"}
    if d["start_index"] != "absent":
        attrs["start_index"] = str(si) if d["start_index_type"] == "str" else si
    if d["padded"] or rng.random() < 0.5:
        if d["fill"] != "nan":
            attrs["_FillValue"] = conn.dtype.type(fillv)
        d["fill_declared"] = True
    else:
        d["fill_declared"] = False
    if d["transposed"]:
        ds[N["face_nodes"]] = xr.DataArray(conn.T.copy(), dims=[N["nMax"], N["nFace"]], attrs=attrs)
    else:
        ds[N["face_nodes"]] = xr.DataArray(conn, dims=[N["nFace"], N["nMax"]], attrs=attrs)
    supplied = {}
    if d["edge_table"]:
        edges, eid = edges_of(m, rng)
        esi = _pick(rng, [0, 1])
        en = np.array([sorted(e) for e in edges], dtype=d["dtype"] if d["dtype"] != "float64" else "int32") + esi
        ds[N["edge_nodes"]] = xr.DataArray(en, dims=[N["nEdge"], N["Two"]], attrs={"cf_role": "edge_node_connectivity", "start_index": esi})
        topo["edge_node_connectivity"] = N["edge_nodes"]
        if rng.random() < 0.5:
            topo["edge_dimension"] = N["nEdge"]
        supplied["edge_node"] = [sorted(e) for e in edges]
        d["edge_start_index"] = esi
        d["more_tables"] = bool(d.get("more_tables")) and ref.is_manifold(m.faces)
        if d["more_tables"]:
            # the source also ships its edge->face and node->face tables, in its own integer type / fill value / index base (FESOM-
            # style files do; the edge->face table there is stored with the edge dimension LAST, which needs edge_dimension declared)
            idt = d["dtype"] if d["dtype"] != "float64" else "int32"
            ifill = np.dtype(idt).type(fillv if (d["fill"] not in ("nan",) and d["dtype"] != "float64") else -1)
            tsi = _pick(rng, [0, 1])
            efm = ref.edge_faces(m.faces)
            ef = np.full((len(edges), 2), ifill, dtype=idt)
            for i, e in enumerate(edges):
                fl = efm[frozenset(e)]
                ef[i, : len(fl)] = np.array(fl) + tsi
            efn = "edge_face_connectivity" if not rn else _name(rng, "edge_faces")
            eattrs = {"cf_role": "edge_face_connectivity", "start_index": tsi, "_FillValue": ifill}
            if d.get("edge_face_edge_last"):
                ds[efn] = xr.DataArray(ef.T.copy(), dims=[N["Two"], N["nEdge"]], attrs=eattrs)
                topo["edge_dimension"] = N["nEdge"]
            else:
                ds[efn] = xr.DataArray(ef, dims=[N["nEdge"], N["Two"]], attrs=eattrs)
            topo["edge_face_connectivity"] = efn
            supplied["edge_face"] = [sorted(efm[frozenset(e)]) for e in edges]
            nfm = ref.node_faces(m.faces, m.n_node)
            wv = max(1, max(len(v) for v in nfm.values()))
            nf = np.full((m.n_node, wv), ifill, dtype=idt)
            for i in range(m.n_node):
                fl = sorted(nfm[i])
                nf[i, : len(fl)] = np.array(fl, dtype=idt) + tsi
            nfn = "node_face_connectivity" if not rn else _name(rng, "node_faces")
            ds[nfn] = xr.DataArray(nf, dims=[N["nNode"], _name(rng, "nMaxNodeFaces") if rn else "nMaxNodeFaces"], attrs={"cf_role": "node_face_connectivity", "start_index": tsi, "_FillValue": ifill})
            topo["node_face_connectivity"] = nfn
            supplied["node_face"] = [sorted(nfm[i]) for i in range(m.n_node)]
            d["tables_start_index"] = tsi
    else:
        d["more_tables"] = False
    if d["face_coords"]:
        C = face_centres(m)
        cl, ca = ref.xyz_to_lonlat(C)
        ds[N["face_x"]] = xr.DataArray(_lon(cl, d["lon"]), dims=[N["nFace"]], attrs={"units": "degrees_east"})
        ds[N["face_y"]] = xr.DataArray(np.array(ca), dims=[N["nFace"]], attrs={"units": "degrees_north"})
        topo["face_coordinates"] = "%s %s" % (N["face_x"], N["face_y"])
        supplied["face_centres"] = C
    ds[N["mesh"]] = xr.DataArray(np.int32(0), attrs=topo)
    return ds, {"expect": m, "reflect": False, "dial": d, "supplied": supplied, "format": "UGRID"}


# =============================================================================== MPAS
def mpas_dataset(m, rng, supply_distances=None, dual=False, force=None):
    """MPAS mesh spec 1.0: 1-based int32 tables, 0 = missing, radians, xyz scaled by sphere_radius."""
    d = {
        "padding": _pick(rng, ["zeros", "repeat_last"]),
        "optional_tables": bool(rng.random() < 0.6),
        "radius": _pick(rng, [1.0, 6371229.0]),
        "xyz": bool(rng.random() < 0.7),
        "lon": _pick(rng, ["0..2pi", "-pi..pi"]),
        "distances": bool(rng.random() < 0.5) if supply_distances is None else bool(supply_distances),
        "dual": bool(dual),
        "index_dtype": _pick(rng, ["int32", "int32", "int64"]),
        "padded_attrs": bool(rng.random() < 0.5),
    }
    if force:
        d.update(force)
    nC, nV = m.n_face, m.n_node
    d.setdefault("extra_width", _pick(rng, [0, 0, 0, 1, 2]))  # maxEdges larger than the largest cell
    w = max(len(f) for f in m.faces) + d["extra_width"]
    edges, eid = edges_of(m, rng)
    nE = len(edges)
    efm = ref.edge_faces(m.faces)
    nfm = ref.node_faces(m.faces, nV)
    R = d["radius"]
    C = face_centres(m)
    voc = np.zeros((nC, w), dtype=np.int32)
    eoc = np.zeros((nC, w), dtype=np.int32)
    coc = np.zeros((nC, w), dtype=np.int32)
    nec = np.array([len(f) for f in m.faces], dtype=np.int32)
    for i, f in enumerate(m.faces):
        k = len(f)
        fe = ref.face_edges(f)
        voc[i, :k] = np.array(f) + 1
        eoc[i, :k] = [eid[e] + 1 for e in fe]
        for j, e in enumerate(fe):
            other = [c for c in efm[e] if c != i]
            coc[i, j] = other[0] + 1 if other else 0
        if d["padding"] == "repeat_last":
            voc[i, k:] = voc[i, k - 1]
            eoc[i, k:] = eoc[i, k - 1]
            coc[i, k:] = coc[i, k - 1]
    deg = max(len(v) for v in nfm.values())
    cov = np.zeros((nV, deg), dtype=np.int32)
    eov = np.zeros((nV, deg), dtype=np.int32)
    node_edges = {n: [] for n in range(nV)}
    for e in edges:
        for n in e:
            node_edges[n].append(eid[e])
    # cells around each vertex in counter-clockwise order (MPAS convention), missing -> 0 at the end
    for n in range(nV):
        cells = sorted(nfm[n])
        if len(cells) >= 2:
            nv = m.xyz[n]
            t = np.array([1.0, 0, 0]) if abs(nv[0]) < 0.9 else np.array([0, 1.0, 0])
            e1 = ref.unit(t - np.dot(t, nv) * nv)
            e2 = np.cross(nv, e1)
            cells.sort(key=lambda c: math.atan2(np.dot(C[c] - nv, e2), np.dot(C[c] - nv, e1)))
        cov[n, : len(cells)] = np.array(cells) + 1
        ne = node_edges[n][:deg]
        eov[n, : len(ne)] = np.array(ne) + 1
    voe = np.array([sorted(e) for e in edges], dtype=np.int32) + 1
    coe = np.zeros((nE, 2), dtype=np.int32)
    for i, e in enumerate(edges):
        cs = efm[e]
        coe[i, : len(cs)] = np.array(cs) + 1
    lon, lat = m.lonlat()
    clon, clat = ref.xyz_to_lonlat(C)
    E = ref.unit(m.xyz[voe[:, 0] - 1] + m.xyz[voe[:, 1] - 1])
    elon, elat = ref.xyz_to_lonlat(E)

    def rl(x):
        x = np.deg2rad(np.asarray(x, dtype=float))
        return np.mod(x, 2 * np.pi) if d["lon"] == "0..2pi" else x

    # MPAS cores write their global string attributes blank-padded (Fortran character variables)
    pad = (lambda t: t.ljust(16)) if d.get("padded_attrs") else (lambda t: t)
    ds = xr.Dataset(attrs={"on_a_sphere": pad("YES"), "sphere_radius": R, "is_periodic": pad("NO"), "Conventions": "MPAS", "mesh_spec": pad("1.0"), "model_name": pad("  mpas")})
    ds["latCell"] = xr.DataArray(np.deg2rad(clat), dims=["nCells"])
    ds["lonCell"] = xr.DataArray(rl(clon), dims=["nCells"])
    ds["latVertex"] = xr.DataArray(np.deg2rad(lat), dims=["nVertices"])
    ds["lonVertex"] = xr.DataArray(rl(lon), dims=["nVertices"])
    if d["optional_tables"]:
        ds["latEdge"] = xr.DataArray(np.deg2rad(elat), dims=["nEdges"])
        ds["lonEdge"] = xr.DataArray(rl(elon), dims=["nEdges"])
    if d["xyz"]:
        for nm, P, dim in (("Cell", C, "nCells"), ("Vertex", m.xyz, "nVertices")) + ((("Edge", E, "nEdges"),) if d["optional_tables"] else ()):
            for k, ax in enumerate("xyz"):
                ds[ax + nm] = xr.DataArray(P[:, k] * R, dims=[dim])
    ds["verticesOnCell"] = xr.DataArray(voc, dims=["nCells", "maxEdges"])
    ds["nEdgesOnCell"] = xr.DataArray(nec, dims=["nCells"])
    ds["cellsOnVertex"] = xr.DataArray(cov, dims=["nVertices", "vertexDegree"])
    supplied = {"node_face": [sorted(nfm[n]) for n in range(nV)], "face_centres": C}
    if d["optional_tables"]:
        ds["edgesOnCell"] = xr.DataArray(eoc, dims=["nCells", "maxEdges"])
        ds["cellsOnCell"] = xr.DataArray(coc, dims=["nCells", "maxEdges"])
        ds["verticesOnEdge"] = xr.DataArray(voe, dims=["nEdges", "TWO"])
        ds["cellsOnEdge"] = xr.DataArray(coe, dims=["nEdges", "TWO"])
        ds["edgesOnVertex"] = xr.DataArray(eov, dims=["nVertices", "vertexDegree"])
        supplied.update(
            edge_node=[sorted(e) for e in edges],
            face_edge=[[eid[e] for e in ref.face_edges(f)] for f in m.faces],
            edge_face=[sorted(efm[e]) for e in edges],
            face_face=[[(c - 1) for c in coc[i, : len(f)] if c != 0] for i, f in enumerate(m.faces)],
            edge_centres=E,
        )
        areas = np.array([ref.poly_area_fan(m.ring_pos(i)) for i in range(nC)]) * R * R
        ds["areaCell"] = xr.DataArray(areas, dims=["nCells"])
        supplied["face_areas"] = areas
        if d["distances"]:
            # deliberately not the geometric values: supplied distances must be carried, not recomputed
            dv = (ref.angle(m.xyz[voe[:, 0] - 1], m.xyz[voe[:, 1] - 1]) * R) * 1.25 + 0.5
            dc = np.where(coe[:, 1] != 0, ref.angle(C[coe[:, 0] - 1], C[np.maximum(coe[:, 1], 1) - 1]) * R * 0.75 + 0.25, 0.0)
            ds["dvEdge"] = xr.DataArray(dv, dims=["nEdges"])
            ds["dcEdge"] = xr.DataArray(dc, dims=["nEdges"])
            supplied["distances"] = {"edge_node": dv, "edge_face": dc}
    else:
        d["distances"] = False
    if d["index_dtype"] != "int32":
        for v in ("verticesOnCell", "nEdgesOnCell", "cellsOnVertex", "edgesOnCell", "cellsOnCell", "verticesOnEdge", "cellsOnEdge", "edgesOnVertex"):
            if v in ds:
                ds[v] = ds[v].astype(d["index_dtype"])
    info = {"expect": m, "reflect": False, "dial": d, "supplied": supplied, "format": "MPAS"}
    if dual:
        # dual: nodes = cell centres, faces = cells around each vertex (as listed, zeros dropped)
        faces = [[int(c) - 1 for c in row if c != 0] for row in cov]
        info["expect"] = gen.Mesh(C, faces, dict(m.desc, mpas_dual=True), m.closed)
        info["supplied"] = {}
    return ds, info


# =============================================================================== SCRIP
def scrip_dataset(m, rng, force=None):
    d = {"lon": _pick(rng, ["-180..180", "0..360"]), "area": True, "mixed_padding": "repeat_last"}
    if force:
        d.update(force)
    d.setdefault("extra_width", _pick(rng, [0, 0, 0, 1, 2]))  # grid_corners larger than the largest cell
    w = max(len(f) for f in m.faces) + d["extra_width"]
    lon, lat = m.lonlat()
    lon = _lon(lon, d["lon"])
    clon = np.zeros((m.n_face, w))
    clat = np.zeros((m.n_face, w))
    d.setdefault("pole_lon", _pick(rng, ["zero", "neighbour", "neighbour"]))
    for i, f in enumerate(m.faces):
        ff = list(f) + [f[-1]] * (w - len(f))
        clon[i] = lon[ff]
        clat[i] = np.array(lat)[ff]
        if d["pole_lon"] == "neighbour":
            # a corner exactly at a pole has no longitude of its own: SCRIP writers (regular grids, polar caps) give it the longitude
            # of the neighbouring corner of the cell, so the same pole appears with different longitudes in different cells
            for j in range(len(f)):
                if abs(clat[i, j]) == 90.0:
                    clon[i, j] = clon[i, (j + 1) % len(f)] if abs(clat[i, (j + 1) % len(f)]) != 90.0 else clon[i, j - 1]
            for j in range(len(f), w):  # keep the padding a repeat of the last corner
                clon[i, j] = clon[i, len(f) - 1]
    C = face_centres(m)
    cl, ca = ref.xyz_to_lonlat(C)
    areas = np.array([ref.poly_area_fan(m.ring_pos(i)) for i in range(m.n_face)])
    ds = xr.Dataset()
    ds["grid_area"] = xr.DataArray(areas, dims=["grid_size"], attrs={"units": "radians^2"})
    ds["grid_center_lat"] = xr.DataArray(np.array(ca), dims=["grid_size"], attrs={"units": "degrees"})
    ds["grid_center_lon"] = xr.DataArray(_lon(cl, d["lon"]), dims=["grid_size"], attrs={"units": "degrees"})
    ds["grid_corner_lat"] = xr.DataArray(clat, dims=["grid_size", "grid_corners"], attrs={"units": "degrees"})
    ds["grid_corner_lon"] = xr.DataArray(clon, dims=["grid_size", "grid_corners"], attrs={"units": "degrees"})
    ds["grid_imask"] = xr.DataArray(np.ones(m.n_face, dtype=np.int32), dims=["grid_size"])
    ds["grid_dims"] = xr.DataArray(np.array([m.n_face], dtype=np.int32), dims=["grid_rank"])
    d["padded"] = len({len(f) for f in m.faces}) > 1
    return ds, {"expect": m, "reflect": False, "dial": d, "supplied": {"face_centres": C}, "format": "Scrip"}


# =============================================================================== Exodus
def exodus_dataset(m, rng, force=None):
    d = {"coord": _pick(rng, ["coord", "coordxyz"]), "radius": _pick(rng, [1.0, 1.0, 6371.0]), "block_order": _pick(rng, ["ascending", "descending"]),
         "split_blocks": _pick(rng, [1, 1, 2, 5, 12])}
    if force:
        d.update(force)
    sizes = sorted({len(f) for f in m.faces}, reverse=d["block_order"] == "descending")
    ds = xr.Dataset(attrs={"api_version": 5.0, "version": 5.0, "floating_point_word_size": 8, "title": "uxmon"})
    P = m.xyz * d["radius"]
    if d["coord"] == "coord":
        ds["coord"] = xr.DataArray(P.T.copy(), dims=["num_dim", "num_nodes"])
    else:
        for k, ax in enumerate("xyz"):
            ds["coord" + ax] = xr.DataArray(P[:, k].copy(), dims=["num_nodes"])
        ds["coor_names"] = xr.DataArray(np.array(["x", "y", "z"]), dims=["num_dim"])
    order = []
    b = 0
    for s in sizes:
        idx_all = [i for i, f in enumerate(m.faces) if len(f) == s]
        # an element block is any group of elements of one type: a size group may be spread over several blocks
        nsplit = max(1, min(int(d["split_blocks"]), len(idx_all)))
        for part in np.array_split(np.array(idx_all), nsplit):
            idx = [int(i) for i in part]
            if not idx:
                continue
            b += 1
            order += idx
            conn = np.array([m.faces[i] for i in idx], dtype=np.int32) + 1
            ds["connect%d" % b] = xr.DataArray(conn, dims=["num_el_in_blk%d" % b, "num_nod_per_el%d" % b], attrs={"elem_type": {3: "TRI3", 4: "SHELL4"}.get(s, "NSIDED")})
    d["n_blocks"] = b
    ds["eb_status"] = xr.DataArray(np.ones(b, dtype=np.int32), dims=["num_el_blk"])
    expect = gen.Mesh(m.xyz, [m.faces[i] for i in order], dict(m.desc, exodus_order=True), m.closed)
    return ds, {"expect": expect, "reflect": False, "dial": d, "supplied": {}, "format": "Exodus"}


# =============================================================================== ESMF
def esmf_dataset(m, rng, force=None):
    d = {"start_index": _pick(rng, ["absent", 1, 0]), "decoded": bool(rng.random() < 0.5), "centers": bool(rng.random() < 0.6),
         "lon": _pick(rng, ["-180..180", "0..360"]), "index_dtype": _pick(rng, ["int32", "int32", "int64"])}
    if force:
        d.update(force)
    si = 1 if d["start_index"] == "absent" else d["start_index"]
    d.setdefault("extra_width", _pick(rng, [0, 0, 0, 1, 2]))  # maxNodePElement larger than the largest element
    w = max(len(f) for f in m.faces) + d["extra_width"]
    lon, lat = m.lonlat()
    conn = np.full((m.n_face, w), -1, dtype=np.int32)
    for i, f in enumerate(m.faces):
        conn[i, : len(f)] = np.array(f) + si
    ds = xr.Dataset(attrs={"gridType": "unstructured mesh", "version": "0.9"})
    ds["nodeCoords"] = xr.DataArray(np.stack([_lon(lon, d["lon"]), np.array(lat)], axis=1), dims=["nodeCount", "coordDim"], attrs={"units": "degrees"})
    attrs = {"long_name": "Node indices that define the element connectivity"}
    if d["start_index"] != "absent":
        attrs["start_index"] = np.int32(si)
    if d["decoded"]:
        # as xarray hands it over after mask-and-scale decoding of an int32 variable with _FillValue=-1
        cf = conn.astype(float)
        cf[conn == -1] = np.nan
        ds["elementConn"] = xr.DataArray(cf, dims=["elementCount", "maxNodePElement"], attrs=attrs)
    else:
        attrs["_FillValue"] = np.int32(-1)
        ds["elementConn"] = xr.DataArray(conn.astype(d["index_dtype"]), dims=["elementCount", "maxNodePElement"], attrs=attrs)
    ds["numElementConn"] = xr.DataArray(np.array([len(f) for f in m.faces], dtype=np.int32), dims=["elementCount"])
    supplied = {}
    if d["centers"]:
        C = face_centres(m)
        cl, ca = ref.xyz_to_lonlat(C)
        ds["centerCoords"] = xr.DataArray(np.stack([_lon(cl, d["lon"]), np.array(ca)], axis=1), dims=["elementCount", "coordDim"], attrs={"units": "degrees"})
        supplied["face_centres"] = C
    ds["elementArea"] = xr.DataArray(np.array([ref.poly_area_fan(m.ring_pos(i)) for i in range(m.n_face)]), dims=["elementCount"], attrs={"units": "radians^2"})
    d["padded"] = len({len(f) for f in m.faces}) > 1 or d["extra_width"] > 0
    return ds, {"expect": m, "reflect": False, "dial": d, "supplied": supplied, "format": "ESMF"}


# =============================================================================== GEOS-CS
def geos_dataset(ne, rng, force=None):
    d = {"ne": ne, "centers": bool(rng.random() < 0.6), "lon": _pick(rng, ["-180..180", "0..360"])}
    if force:
        d.update(force)
    t = np.tan(np.linspace(-math.pi / 4, math.pi / 4, ne + 1))
    tiles = [
        lambda a, b: (1, a, b), lambda a, b: (-a, 1, b), lambda a, b: (-1, -a, b),
        lambda a, b: (a, -1, b), lambda a, b: (-b, a, 1), lambda a, b: (b, a, -1),
    ]
    R = ref.rotation_matrix(np.random.default_rng(4242 + ne))
    corner = np.zeros((6, ne + 1, ne + 1, 3))
    for f, cf in enumerate(tiles):
        for j in range(ne + 1):
            for i in range(ne + 1):
                corner[f, j, i] = R @ ref.unit(np.array(cf(t[i], t[j]), dtype=float))
    clon, clat = ref.xyz_to_lonlat(corner)
    xyz = corner.reshape(-1, 3)
    idx = np.arange(6 * (ne + 1) * (ne + 1)).reshape(6, ne + 1, ne + 1)
    faces = []
    cen = []
    for f in range(6):
        for j in range(ne):
            for i in range(ne):
                ring = [idx[f, j + 1, i + 1], idx[f, j + 1, i], idx[f, j, i], idx[f, j, i + 1]]
                faces.append([int(v) for v in ring])
                cen.append(ref.unit(xyz[ring].mean(axis=0)))
    cen = np.array(cen)
    ds = xr.Dataset()
    ds["corner_lons"] = xr.DataArray(_lon(clon, d["lon"]), dims=["nf", "YCdim", "XCdim"], attrs={"units": "degrees_east"})
    ds["corner_lats"] = xr.DataArray(np.array(clat), dims=["nf", "YCdim", "XCdim"], attrs={"units": "degrees_north"})
    supplied = {}
    if d["centers"]:
        l, a = ref.xyz_to_lonlat(cen)
        ds["lons"] = xr.DataArray(_lon(l, d["lon"]).reshape(6, ne, ne), dims=["nf", "Ydim", "Xdim"], attrs={"units": "degrees_east"})
        ds["lats"] = xr.DataArray(np.array(a).reshape(6, ne, ne), dims=["nf", "Ydim", "Xdim"], attrs={"units": "degrees_north"})
        supplied["face_centres"] = cen
    expect = gen.Mesh(xyz, faces, {"family": "geos_cs", "ne": ne}, True)
    return ds, {"expect": expect, "reflect": True, "dial": d, "supplied": supplied, "format": "GEOS-CS"}


# =============================================================================== ICON
def icon_dataset(m, rng, force=None):
    """ICON grids: triangles only; tables stored transposed (3, cell) / (2, edge), 1-based int32, radians."""
    assert all(len(f) == 3 for f in m.faces)
    d = {"closed": bool(m.closed)}
    if force:
        d.update(force)
    edges, eid = edges_of(m, rng)
    efm = ref.edge_faces(m.faces)
    nC, nE = m.n_face, len(edges)
    voc = np.array(m.faces, dtype=np.int32).T + 1
    eoc = np.array([[eid[e] for e in ref.face_edges(f)] for f in m.faces], dtype=np.int32).T + 1
    nb = np.zeros((3, nC), dtype=np.int32)
    for i, f in enumerate(m.faces):
        for j, e in enumerate(ref.face_edges(f)):
            other = [c for c in efm[e] if c != i]
            nb[j, i] = other[0] + 1 if other else 0
    aco = np.zeros((2, nE), dtype=np.int32)
    for i, e in enumerate(edges):
        cs = efm[e]
        aco[: len(cs), i] = np.array(cs) + 1
    ev = np.array([sorted(e) for e in edges], dtype=np.int32).T + 1
    lon, lat = m.lonlat()
    C = face_centres(m)
    cl, ca = ref.xyz_to_lonlat(C)
    E = ref.unit(m.xyz[ev[0] - 1] + m.xyz[ev[1] - 1])
    el, ea = ref.xyz_to_lonlat(E)
    ds = xr.Dataset()
    for nm, v, dim in (("vlon", lon, "vertex"), ("vlat", lat, "vertex"), ("clon", cl, "cell"), ("clat", ca, "cell"), ("elon", el, "edge"), ("elat", ea, "edge")):
        ds[nm] = xr.DataArray(np.deg2rad(np.asarray(v, dtype=float)), dims=[dim], attrs={"units": "radian"})
    ds["vertex_of_cell"] = xr.DataArray(voc, dims=["nv", "cell"])
    ds["edge_of_cell"] = xr.DataArray(eoc, dims=["nv", "cell"])
    ds["neighbor_cell_index"] = xr.DataArray(nb, dims=["nv", "cell"])
    ds["adjacent_cell_of_edge"] = xr.DataArray(aco, dims=["nc", "edge"])
    ds["edge_vertices"] = xr.DataArray(ev, dims=["nc", "edge"])
    supplied = {
        "edge_node": [sorted(e) for e in edges], "face_edge": [[eid[e] for e in ref.face_edges(f)] for f in m.faces],
        "edge_face": [sorted(efm[e]) for e in edges], "face_face": [[int(c) - 1 for c in nb[:, i] if c != 0] for i in range(nC)],
        "face_centres": C, "edge_centres": E,
    }
    return ds, {"expect": m, "reflect": False, "dial": d, "supplied": supplied, "format": "ICON"}


# =============================================================================== polygons on disk
def polygon_file(m, rng, workdir, kind=None, force=None):
    """GeoJSON / shapefile written through geopandas.  The expectation is an independent decode
    of the file (the shapefile writer re-winds rings): one face per polygon exterior, in file order."""
    import geopandas as gpd
    from shapely.geometry import MultiPolygon, Polygon

    d = {"kind": kind or _pick(rng, ["geojson", "shp"]), "multi": bool(rng.random() < 0.4)}
    if force:
        d.update(force)
    lon, lat = m.lonlat()
    polys = []
    for f in m.faces:
        L = np.array(lon)[f]
        if L.max() - L.min() > 180:  # keep planar rings simple: unwrap across the antimeridian
            L = np.where(L < 0, L + 360, L)
        polys.append(Polygon(list(zip(L.tolist(), np.array(lat)[f].tolist()))))
    geoms = []
    i = 0
    while i < len(polys):
        if d["multi"] and i + 1 < len(polys) and rng.random() < 0.5:
            k = int(rng.integers(2, 4))
            geoms.append(MultiPolygon(polys[i:i + k]))
            i += k
        else:
            geoms.append(polys[i])
            i += 1
    gdf = gpd.GeoDataFrame({"id": list(range(len(geoms)))}, geometry=geoms, crs="EPSG:4326")
    path = os.path.join(workdir, "poly_%d.%s" % (int(rng.integers(0, 10**9)), "geojson" if d["kind"] == "geojson" else "shp"))
    gdf.to_file(path, driver="GeoJSON" if d["kind"] == "geojson" else "ESRI Shapefile")
    back = gpd.read_file(path)
    xyz, faces = [], []
    for geom in back.geometry:
        parts = list(geom.geoms) if geom.geom_type == "MultiPolygon" else [geom]
        for p in parts:
            xs, ys = p.exterior.coords.xy
            ring = []
            for x, y in list(zip(xs, ys))[:-1]:
                ring.append(len(xyz))
                xyz.append(ref.lonlat_to_xyz(x, y))
            faces.append(ring)
    expect = gen.Mesh(np.array(xyz), faces, dict(m.desc, polygon_file=d["kind"]), False)
    d["n_multipolygons"] = int(sum(1 for g in back.geometry if g.geom_type == "MultiPolygon"))
    d["padded"] = len({len(f) for f in faces}) > 1
    return path, {"expect": expect, "reflect": False, "dial": d, "supplied": {}, "format": "GeoJSON" if d["kind"] == "geojson" else "Shapefile"}


def cleanup_polygon_file(path):
    base = os.path.splitext(path)[0]
    for ext in (".geojson", ".shp", ".shx", ".dbf", ".prj", ".cpg"):
        try:
            os.remove(base + ext)
        except OSError:
            pass


# =============================================================================== arrays
def face_vertices(m, rng, force=None):
    d = {"latlon": bool(rng.random() < 0.6), "container": _pick(rng, ["ndarray", "list", "tuple"]), "lon": _pick(rng, ["-180..180", "0..360"])}
    if force:
        d.update(force)
    w = max(len(f) for f in m.faces)
    mixed = len({len(f) for f in m.faces}) > 1
    d["padded"] = mixed
    if d["latlon"]:
        lon, lat = m.lonlat()
        P = np.stack([_lon(lon, d["lon"]), np.array(lat)], axis=1)
    else:
        # Cartesian corners need not lie on the unit sphere (kilometres, metres, half a unit)
        d.setdefault("radius", _pick(rng, [1.0, 1.0, 2.0, 0.5, 6371.229]))
        P = m.xyz * d["radius"]
    fv = np.full((m.n_face, w, P.shape[1]), float(INT_FILL))
    for i, f in enumerate(m.faces):
        fv[i, : len(f)] = P[f]
    src = fv
    if d["container"] == "list":
        src = fv.tolist()
    elif d["container"] == "tuple":
        src = tuple(tuple(tuple(p) for p in f) for f in fv.tolist())
    return src, {"expect": m, "reflect": False, "dial": d, "supplied": {}, "format": "Face Vertices", "latlon": d["latlon"]}


def topology_args(m, rng, force=None):
    d = {"start_index": _pick(rng, [0, 1]), "fill": _pick(rng, [-1, -999, 999999, "intmin", "none", 0]), "dtype": _pick(rng, ["int32", "int64"]),
         "lon": _pick(rng, ["-180..180", "0..360"]), "via": _pick(rng, ["from_topology", "open_grid_dict"]), "edge_table": bool(rng.random() < 0.3),
         "container": _pick(rng, ["ndarray", "ndarray", "list"])}
    if force:
        d.update(force)
    if d["fill"] == 0:
        d["start_index"] = 1  # one-based tables padded with 0 (as MPAS and many Fortran codes write them)
    mixed = len({len(f) for f in m.faces}) > 1
    d.setdefault("extra_width", _pick(rng, [0, 0, 0, 1, 2]))
    d["padded"] = mixed or d["extra_width"] > 0
    if d["padded"] and d["fill"] == "none":
        d["fill"] = -1
    if d["fill"] == "intmin":
        d["dtype"] = "int64"
    fillv = INT_FILL if d["fill"] == "intmin" else (None if d["fill"] == "none" else d["fill"])
    w = max(len(f) for f in m.faces) + d["extra_width"]
    conn = np.full((m.n_face, w), 0 if fillv is None else fillv, dtype=d["dtype"])
    for i, f in enumerate(m.faces):
        conn[i, : len(f)] = np.array(f) + d["start_index"]
    lon, lat = m.lonlat()
    kw = {"node_lon": _lon(lon, d["lon"]), "node_lat": np.array(lat), "face_node_connectivity": conn, "fill_value": fillv, "start_index": d["start_index"]}
    supplied = {}
    if d["edge_table"]:
        edges, eid = edges_of(m, rng)
        kw["edge_node_connectivity"] = np.array([sorted(e) for e in edges], dtype=d["dtype"]) + d["start_index"]
        supplied["edge_node"] = [sorted(e) for e in edges]
    if d["container"] == "list":
        kw["node_lon"] = kw["node_lon"].tolist()
        kw["node_lat"] = kw["node_lat"].tolist()
    return kw, {"expect": m, "reflect": False, "dial": d, "supplied": supplied, "format": "User Defined Topology"}
