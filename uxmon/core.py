"""Worker-side context: counters, oracle evaluation recording, violation records.

A check module (uxmon/checks/cNN.py) provides

    PROPERTY = "C05"
    def cases(tier, seed):      -> iterable of JSON-able case descriptors (cheap, no meshes built)
    def run_case(ctx, case):    -> drives the real code and calls ctx.check(...) for every
                                   oracle evaluation
    MIN_EVAL = {...}            -> optional: clause -> minimum evaluations per tier, else inconclusive
    def setup(ctx)              -> optional: one-time warm-up / instrumentation per worker

The oracle never raises on a violation during exploration (one violation must not mask the
rest); it records.  Exceptions escaping the real code are observations handled by the check.
"""

import hashlib
import json
import os
import time
import traceback

import numpy as np


def jhash(obj):
    return hashlib.sha1(json.dumps(obj, sort_keys=True, default=_jd).encode()).hexdigest()[:16]


def _jd(o):
    if isinstance(o, (np.integer,)):
        return int(o)
    if isinstance(o, (np.floating,)):
        return float(o)
    if isinstance(o, np.ndarray):
        return o.tolist()
    if isinstance(o, (set, frozenset)):
        return sorted(o)
    if isinstance(o, bytes):
        return o.hex()
    return repr(o)


def jdump(obj, path):
    tmp = path + ".tmp%d" % os.getpid()
    with open(tmp, "w") as f:
        json.dump(obj, f, indent=1, sort_keys=True, default=_jd)
    os.replace(tmp, path)


def innermost_uxarray_frame(exc):
    tb = traceback.extract_tb(exc.__traceback__)
    for fr in reversed(tb):
        if "/uxarray/" in fr.filename:
            return "%s:%s" % (os.path.basename(fr.filename), fr.name)
    return "<outside-uxarray>"


def exc_sig(exc):
    return "%s@%s" % (type(exc).__name__, innermost_uxarray_frame(exc))


class Ctx:
    MAX_VIOL_STORED = 400

    def __init__(self, prop, tier, seed, shard, nshards, replay=False):
        self.prop = prop
        self.tier = tier
        self.seed = seed
        self.shard = shard
        self.nshards = nshards
        self.replay = replay
        self.clause_evals = {}
        self.observed = {}
        self.violations = []
        self.viol_count = 0
        self.viol_sigs = {}
        self.samples = []
        self.nontrivial = set()
        self.cases_run = 0
        self.case = None
        self.errors = []
        self.t0 = time.time()
        self.notes = {}
        self.blobs = {}

    # ---- case bookkeeping
    def begin_case(self, case):
        self.case = case
        self.cases_run += 1
        self._case_nontrivial = False

    def mark_nontrivial(self, key=None):
        """Declare the current case (or a sub-case key) non-trivial by the check's rule."""
        h = jhash([self.case, key] if key is not None else self.case)
        self.nontrivial.add(h)

    def sample(self, obj, limit=4):
        if len(self.samples) < limit:
            self.samples.append(obj)

    def observe(self, key, n=1):
        self.observed[key] = self.observed.get(key, 0) + n

    def note_set(self, key, value, limit=5000):
        s = self.notes.setdefault(key, set())
        if len(s) < limit:
            s.add(value)

    # ---- oracle
    def check(self, clause, ok, sig=None, detail=None):
        """Record one oracle evaluation.  sig: mechanism features (dict of small scalars)
        used for known-finding matching and de-duplication.  detail: witness data."""
        self.clause_evals[clause] = self.clause_evals.get(clause, 0) + 1
        if ok:
            return True
        self.viol_count += 1
        sig = dict(sig or {})
        key = clause + "|" + json.dumps(sig, sort_keys=True, default=_jd)
        n = self.viol_sigs.get(key, 0)
        self.viol_sigs[key] = n + 1
        if n < 3 and len(self.violations) < self.MAX_VIOL_STORED:
            self.violations.append(
                {
                    "property": self.prop,
                    "clause": clause,
                    "sig": sig,
                    "case": self.case,
                    "detail": detail,
                    "seed": self.seed,
                    "shard": self.shard,
                }
            )
        return False

    def harness_error(self, where, exc):
        self.errors.append({"where": where, "exc": repr(exc), "tb": traceback.format_exc()[-2000:], "case": self.case})

    def result(self):
        return {
            "property": self.prop,
            "tier": self.tier,
            "seed": self.seed,
            "shard": self.shard,
            "cases_run": self.cases_run,
            "clause_evals": self.clause_evals,
            "observed": self.observed,
            "violations": self.violations,
            "viol_count": self.viol_count,
            "viol_sigs": self.viol_sigs,
            "samples": self.samples,
            "nontrivial": sorted(self.nontrivial),
            "errors": self.errors[:20],
            "n_errors": len(self.errors),
            "notes": {k: sorted(v)[:2000] for k, v in self.notes.items()},
            "wall_s": time.time() - self.t0,
            "blobs": self.blobs,
            "uxarray_file": getattr(__import__("sys").modules.get("uxarray"), "__file__", None),
        }
