"""C03 - incidence tables are exact transposes of one another."""

import itertools

import numpy as np

from .. import gen, ref, ux, core

PROPERTY = "C03"
SHARDS = {"quick": 6, "thorough": 16}
MODES = {
    "quick": [{"name": "jit", "env": {}}],
    "thorough": [{"name": "jit+boundscheck", "env": {"NUMBA_BOUNDSCHECK": "1"}}],
}
RULE = (
    "cases: manifold tiny tables (<=2 faces quick, <=3 faces thorough, walked completely) and seeded random "
    "meshes (closed, partial with holes, isolated faces, single face, valence up to 10+, renumbered) x "
    "first-access order of node_face/edge_face/face_face/hole_edge_indices, plus grids whose source supplies "
    "edge_node+face_edge tables in a shuffled edge numbering (derived tables built on supplied ones), MPAS sources that ship all "
    "incidence tables (zero or repeated-entry padding), table memory layouts C/F/transposed/strided. "
    "Non-trivial = has a boundary edge, or an isolated face, or a node of valence >= 5, or a supplied table."
)
ASSUMPTIONS = [
    "grids are manifold (each edge bounded by at most two faces) - generated that way and filtered",
    "dict-of-sets reference model in uxmon/ref.py",
]
MIN_EVAL = {
    "quick": {"node_face": 300, "edge_face": 300, "face_face": 300, "hole_edges": 300, "std_form": 300},
    "thorough": {"node_face": 3000, "edge_face": 3000, "face_face": 3000, "hole_edges": 3000, "std_form": 3000},
}

ATTRS = ["node_face_connectivity", "edge_face_connectivity", "face_face_connectivity", "hole_edge_indices"]
ORDERS = list(itertools.permutations(range(4)))

from .c02 import _tiny, _tiny_positions  # noqa: E402


def cases(tier, seed):
    rng = np.random.default_rng([seed, 303])
    params, n = ([2, 6, [3, 4, 5]], 1903) if tier == "quick" else ([3, 5, [3, 4]], 24369)
    chunk = 50
    for lo in range(0, n, chunk):
        yield {"kind": "tiny", "params": params, "lo": lo, "hi": min(n, lo + chunk)}
    nmesh, maxf = (400, 200) if tier == "quick" else (40000, 2500)
    for i in range(nmesh):
        mf = maxf if i % 10 == 0 else min(maxf, 150)
        d = gen.random_mesh(rng, mf)
        yield {"kind": "mesh", "mesh": d, "order": int(rng.integers(0, len(ORDERS))),
               "supplied": bool(rng.random() < 0.3), "sseed": int(rng.integers(0, 10**6)),
               "source": "mpas" if i % 5 == 4 else ("ugrid_tables" if i % 5 == 3 else "topology"), "layout": ux.LAYOUTS[int(rng.integers(0, 4))] if rng.random() < 0.4 else "C",
               "orphans": int(rng.choice([0, 0, 0, 1, 3])), "touch": [TOUCH[int(j)] for j in rng.choice(len(TOUCH), size=int(rng.integers(0, 4)), replace=False)]}
    from .. import samplefiles

    for i, (fkind, rel, kw) in enumerate(samplefiles.netcdf_files(tier)):
        if rel in samplefiles.INCONSISTENT_SOURCE_TABLES:
            continue  # its own face_links table contradicts its faces: nothing to hold the library to
        yield {"kind": "sample_file", "file": rel, "kw": kw, "order": i % len(ORDERS)}


# other derived quantities a script may ask for before (or between) the incidence tables
TOUCH = ["edge_face_distances", "edge_node_distances", "face_areas", "face_lon", "edge_lon", "bounds", "get_dual", "face_edge_connectivity", "n_nodes_per_face", "boundary_edge_indices",
         "node_x", "face_x"]


def touch(g, name):
    if name == "get_dual":
        return g.get_dual()
    v = getattr(g, name)
    return np.asarray(v.values) if hasattr(v, "values") else v


def check_grid(ctx, grid, faces, n_node, order, sig):
    obs = {}
    for k in ORDERS[order]:
        name = ATTRS[k]
        try:
            obs[name] = getattr(grid, name)
        except Exception as e:
            ctx.check("no_exception", False, dict(sig, attr=name, exc=core.exc_sig(e)), {"exc": repr(e)})
    if len(obs) < 4:
        return
    ctx.check("no_exception", True)
    try:
        en = np.asarray(grid.edge_node_connectivity.values)
        edges = [frozenset(map(int, r)) for r in en]
    except Exception as e:
        ctx.check("no_exception", False, dict(sig, attr="edge_node_connectivity", exc=core.exc_sig(e)), {"exc": repr(e)})
        return
    n_face, n_edge = len(faces), len(edges)

    # standard integer type and padding value for every table
    for name, tgt in (("node_face_connectivity", n_face), ("edge_face_connectivity", n_face), ("face_face_connectivity", n_face)):
        # the statement demands the standard integer type and padding value; the position of padding is demanded only
        # for edge_face (one face followed by padding) - a source-supplied face_face table (MPAS cellsOnCell of a regional
        # mesh) legitimately carries "no neighbour" in the slot of the boundary edge
        probs = ux.standard_table(obs[name], tgt, padding_position=(name == "edge_face_connectivity"))
        ctx.check("std_form", not probs, dict(sig, table=name, problem=probs[0].split("=")[0] if probs else ""), {"problems": probs})
    he = obs["hole_edge_indices"]
    hv = np.asarray(he.values if hasattr(he, "values") else he)
    ctx.check("std_form", np.issubdtype(hv.dtype, np.integer), dict(sig, table="hole_edge_indices", problem="dtype"), {"dtype": str(hv.dtype)})

    m_nf = ref.node_faces(faces, n_node)
    nf = np.asarray(obs["node_face_connectivity"].values)
    ok, why = nf.shape[0] == n_node, None
    if ok:
        for n, r in enumerate(ux.rows(nf)):
            if len(r) != len(set(r)) or set(r) != m_nf[n]:
                ok, why = False, {"node": n, "got": r, "want": sorted(m_nf[n])}
                break
    ctx.check("node_face", ok, dict(sig, table="node_face_connectivity"), why)

    m_ef = ref.edge_faces(faces)
    ef = np.asarray(obs["edge_face_connectivity"].values)
    ok, why = ef.shape == (n_edge, 2), None
    if ok:
        for e, r in enumerate(ef):
            want = sorted(m_ef.get(edges[e], []))
            got = [int(v) for v in r if v != ux.INT_FILL]
            if sorted(got) != want:
                ok, why = False, {"edge": e, "nodes": sorted(edges[e]), "got": [int(v) for v in r], "want": want}
                break
            if len(want) == 1 and not (r[0] == want[0] and r[1] == ux.INT_FILL):
                ok, why = False, {"edge": e, "boundary_layout": [int(v) for v in r], "want": want}
                break
    else:
        why = {"shape": list(ef.shape), "want": [n_edge, 2]}
    ctx.check("edge_face", ok, dict(sig, table="edge_face_connectivity"), why)

    m_ff = ref.face_neighbours(faces)
    ff = np.asarray(obs["face_face_connectivity"].values)
    ok, why = ff.shape[0] == n_face, None
    if ok:
        for f in range(n_face):
            got = sorted(int(v) for v in ff[f] if v != ux.INT_FILL and not (isinstance(v, float) and np.isnan(v)))
            if got != m_ff[f]:
                ok, why = False, {"face": f, "got": got, "want": m_ff[f]}
                break
    ctx.check("face_face", ok, dict(sig, table="face_face_connectivity"), why)

    want = sorted(e for e in range(n_edge) if len(m_ef.get(edges[e], [])) == 1)
    got = sorted(int(v) for v in hv.ravel())
    ctx.check("hole_edges", got == want, dict(sig, table="hole_edge_indices"), {"got": got[:40], "want": want[:40]})

    ctx.check("n_max", int(grid.n_max_node_faces) == nf.shape[1] and int(grid.n_max_face_faces) == ff.shape[1], dict(sig, table="n_max"), None)


def features(faces, n_node):
    ef = ref.edge_faces(faces)
    nfm = ref.node_faces(faces, n_node)
    nb = ref.face_neighbours(faces)
    return {
        "boundary": any(len(v) == 1 for v in ef.values()),
        "isolated": any(len(v) == 0 for v in nb.values()),
        "valence5": any(len(v) >= 5 for v in nfm.values()),
    }


def run_case(ctx, case):
    U = ux.ux()
    if case["kind"] == "tiny":
        tabs = _tiny(case["params"])[case["lo"]:case["hi"]]
        for t_i, faces in enumerate(tabs):
            n_node = 1 + max(v for f in faces for v in f)
            lon, lat = ref.xyz_to_lonlat(_tiny_positions(6)[:n_node])
            width = max(len(f) for f in faces)
            conn = np.full((len(faces), width), ux.INT_FILL, dtype=np.intp)
            for i, f in enumerate(faces):
                conn[i, : len(f)] = f
            g = U.Grid.from_topology(np.array(lon), np.array(lat), conn, fill_value=ux.INT_FILL)
            ft = features(faces, n_node)
            check_grid(ctx, g, faces, n_node, (case["lo"] + t_i) % len(ORDERS), {"isolated": ft["isolated"], "supplied": False})
            ctx.mark_nontrivial(case["lo"] + t_i)  # every tiny table has a boundary edge
            ctx.observe("tiny_tables")
            if ft["isolated"]:
                ctx.observe("tiny_with_isolated_face")
        return
    if case["kind"] == "sample_file":
        from .. import samplefiles

        g, m = samplefiles.open_with_model(case["file"], case["kw"])
        sig = {"supplied": "sample_file", "file": case["file"].split("/")[-1]}
        check_grid(ctx, g, m.faces, m.n_node, case["order"], sig)
        for name in TOUCH:
            try:
                touch(g, name)
            except Exception:
                pass
        check_grid(ctx, g, m.faces, m.n_node, case["order"], dict(sig, reread="after_all_other_quantities"))
        ctx.mark_nontrivial()
        ctx.observe("sample_files")
        return
    m = gen.build(case["mesh"])
    if case.get("orphans") and case.get("source", "topology") != "mpas":
        m = gen.with_orphans(m, case["sseed"], case["orphans"])  # nodes no face uses, anywhere in the numbering
        ctx.observe("meshes_with_unused_nodes")
    ft = features(m.faces, m.n_node)
    extra = None
    if case["supplied"]:
        # supply edge_node + face_edge in a shuffled edge numbering (as MPAS/ICON sources do)
        rng = np.random.default_rng(case["sseed"])
        edges = sorted(ref.edge_set(m.faces), key=lambda e: sorted(e))
        perm = rng.permutation(len(edges))
        edges = [edges[i] for i in perm]
        eid = {e: i for i, e in enumerate(edges)}
        en = np.array([sorted(e) if rng.random() < 0.5 else sorted(e)[::-1] for e in edges], dtype=np.intp)
        w = max(len(f) for f in m.faces)
        fe = np.full((m.n_face, w), ux.INT_FILL, dtype=np.intp)
        for i, f in enumerate(m.faces):
            fe[i, : len(f)] = [eid[e] for e in ref.face_edges(f)]
        extra = {"edge_node_connectivity": en, "face_edge_connectivity": fe}
        if rng.random() < 0.5:
            del extra["face_edge_connectivity"]  # the source ships its edges only: face_edge is derived in the source's edge numbering
            ctx.observe("supplied_edge_nodes_only")
    source = case.get("source", "topology")
    if source == "mpas" and ref.is_manifold(m.faces):
        # an MPAS source ships every incidence table itself (1-based, padded by zeros or by repeating the last entry)
        from .. import dialects

        ds, info = dialects.mpas_dataset(m, np.random.default_rng(case["sseed"]), force={"optional_tables": True})
        try:
            g = U.open_grid(ds)
        except Exception as e:
            ctx.check("no_exception", False, {"stage": "open_mpas", "exc": core.exc_sig(e)}, {"exc": repr(e), "mesh": case["mesh"]})
            return
        extra = {"mpas": info["dial"]["padding"]}
        ctx.observe("mesh_from_mpas_source_padding_" + info["dial"]["padding"])
        sig = {"supplied": "mpas", "isolated": ft["isolated"], "padding": info["dial"]["padding"]}
    elif source == "ugrid_tables" and ref.is_manifold(m.faces) and not case.get("orphans"):
        # a UGRID source that ships its edge->node, edge->face and node->face tables in its own integer type, fill value and index base,
        # the edge->face table possibly stored with the edge dimension last (FESOM-style files)
        from .. import dialects

        ds, info = dialects.ugrid_dataset(m, np.random.default_rng(case["sseed"]), force={"edge_table": True, "more_tables": True, "coord_dtype": "float64", "transposed": False})
        try:
            g = U.open_grid(ds)
        except Exception as e:
            ctx.check("no_exception", False, {"stage": "open_ugrid_tables", "exc": core.exc_sig(e)}, {"exc": repr(e), "mesh": case["mesh"], "dial": {k: str(v) for k, v in info["dial"].items()}})
            return
        extra = {"ugrid_tables": True}
        ctx.observe("mesh_from_ugrid_source_with_incidence_tables" + ("_edge_last" if info["dial"].get("edge_face_edge_last") else ""))
        sig = {"supplied": "ugrid_tables", "isolated": ft["isolated"], "edge_face_edge_last": bool(info["dial"].get("edge_face_edge_last")), "names": info["dial"]["names"], "tables_start_index": info["dial"].get("tables_start_index")}
    else:
        conv = ux.CONVENTIONS[case["sseed"] % len(ux.CONVENTIONS)]
        g = ux.grid_from_mesh(m, extra=extra, layout=case.get("layout", "C"), convention=conv)
        sig = {"supplied": bool(extra), "isolated": ft["isolated"], "layout": case.get("layout", "C"), "fill": "standard" if conv[0] == ux.INT_FILL else str(conv[0]), "start_index": conv[1]}
    touched = []
    for name in case.get("touch", []):
        try:
            touch(g, name)
            touched.append(name)
        except Exception as e:
            ctx.observe("touch_raised:%s:%s" % (name, core.exc_sig(e)))
    if touched:
        sig = dict(sig, after_other_quantities=True)
        ctx.note_set("touched_before_tables", "+".join(touched))
    check_grid(ctx, g, m.faces, m.n_node, case["order"], sig)
    # ... and the tables still say the same after every other derived quantity has been asked for
    for name in TOUCH:
        try:
            touch(g, name)
        except Exception:
            pass
    check_grid(ctx, g, m.faces, m.n_node, case["order"], dict(sig, reread="after_all_other_quantities"))
    # grids DERIVED from this one once all its incidence tables exist (face and node selections): judged against the faces
    # the derived grid itself reports
    if m.n_face >= 4:
        rng = np.random.default_rng([m.n_face, m.n_node, case["order"]])
        picks = {"n_face:every_other": ("n_face", np.arange(0, m.n_face, 2)), "n_face:random_half": ("n_face", np.sort(rng.choice(m.n_face, size=max(2, m.n_face // 2), replace=False))),
                 "n_face:permutation": ("n_face", rng.permutation(m.n_face)), "n_node:random_third": ("n_node", np.sort(rng.choice(m.n_node, size=max(1, m.n_node // 3), replace=False)))}
        for how, (dim, idx) in picks.items():
            try:
                sub = g.isel(**{dim: np.asarray(idx, dtype=int)})
                sfaces = ux.rows(sub.face_node_connectivity.values)
            except Exception as e:
                if dim == "n_node" and not any(set(f) & set(int(i) for i in idx) for f in m.faces):
                    ctx.observe("empty_node_selection_rejected")  # only nodes that no face uses were picked: nothing to select
                    continue
                ctx.check("no_exception", False, {"stage": "derived_" + how, "exc": core.exc_sig(e)}, {"exc": repr(e), "mesh": case["mesh"]})
                continue
            check_grid(ctx, sub, sfaces, int(sub.n_node), (case["order"] + 2) % len(ORDERS), {"supplied": sig["supplied"], "derived": how})
            ctx.observe("derived_grid_" + how)
    if source == "mpas" and ref.is_manifold(m.faces):
        # the same in-memory dataset opened a second time (a script that opens the primal and later the same mesh again):
        # the incidence tables of the second grid are judged exactly like the first
        try:
            g_again = U.open_grid(ds)
            check_grid(ctx, g_again, m.faces, m.n_node, (case["order"] + 1) % len(ORDERS), dict(sig, opened="second_time_from_same_dataset"))
            ctx.observe("mpas_sources_opened_twice")
        except Exception as e:
            ctx.check("no_exception", False, {"stage": "open_mpas_again", "exc": core.exc_sig(e)}, {"exc": repr(e), "mesh": case["mesh"]})
    if ft["boundary"] or ft["isolated"] or ft["valence5"] or extra:
        ctx.mark_nontrivial()
    for k, v in ft.items():
        if v:
            ctx.observe("mesh_with_" + k)
    if extra:
        ctx.observe("mesh_with_supplied_edge_tables")
    ctx.observe("meshes")
    ctx.sample({"mesh": case["mesh"], "stats": ux.mesh_stats(m), "features": ft, "supplied": bool(extra),
                "order": [ATTRS[k] for k in ORDERS[case["order"]]]})
