"""C18 - the dual mesh swaps nodes and faces with correct ring order."""

import math

import numpy as np

from .. import gen, ref, ux, core

PROPERTY = "C18"
SHARDS = {"quick": 4, "thorough": 12}
MODES = {
    "quick": [{"name": "jit", "env": {}}, {"name": "jit-off", "env": {"NUMBA_DISABLE_JIT": "1"}}],
    "thorough": [{"name": "jit+boundscheck", "env": {"NUMBA_BOUNDSCHECK": "1"}}, {"name": "jit-off", "env": {"NUMBA_DISABLE_JIT": "1"}}],
}
RULE = (
    "cases: closed meshes (voronoi valence 3, delaunay/merged valence 3..10, polyhedra, cubed sphere) and partial "
    "meshes (holes, isolated faces, single face), renumbered, rigidly rotated, nodes snapped onto a pole / the "
    "antimeridian / the prime meridian; high-resolution patches and locally refined meshes (edges down to 1e-7 rad); after the dual of a grid, the duals of face subsets of it (permutation, band removed, random half) judged against the subset's own tables; JIT on and JIT off (jit-off mode restricted to meshes <= 120 faces). "
    "Oracle: model incidence; dual node k at primal face k's centre; dual faces exactly for nodes with >= 3 faces, "
    "in node order; corner set = faces at the node; angular position of the corners about the node strictly "
    "increasing counter-clockwise from corner 0; for interior nodes consecutive corners share a primal edge "
    "cyclically; padding at the end; data carried unpermuted on closed grids. Non-trivial = valence >= 5 somewhere, "
    "or partial, or a snapped placement."
)
ASSUMPTIONS = ["primal grids have no duplicate nodes (generated so)", "face centres are the library's own (checked against the normalised corner mean)"]
MIN_EVAL = {"quick": {"counts": 150, "corner_set": 150, "ccw_order": 150, "interior_adjacent": 100, "data": 60},
            "thorough": {"counts": 3000, "corner_set": 3000, "ccw_order": 3000, "interior_adjacent": 2000, "data": 1000}}


def cases(tier, seed):
    rng = np.random.default_rng([seed, 1818])
    n = 110 if tier == "quick" else 12000
    for i in range(n):
        fams = ["fine_patch", "refined", "sample"] if i % 5 == 4 else None  # high-resolution regional patches / locally refined closed meshes
        md = gen.random_mesh(rng, 150 if tier == "quick" else 900, families=fams)
        if i % 6 == 1 and md["family"] != "sample":
            # a face (or, every other time, a node) a fraction of a degree away from a pole, not at it
            md = dict(md, ops=list(md.get("ops", [])) + [["snap", [["face_near_npole", "face_near_spole", "node_near_npole", "node_near_spole"][(i // 6) % 4], int(rng.integers(0, 1000))]]])
        yield {"mesh": md, "dseed": int(rng.integers(0, 10**6)),
               "source": ["topology", "topology", "topology", "centres_xyz_metres", "centres_xyz_and_lonlat_metres", "mpas", "topology_float32", "topology_with_node_faces"][int(rng.integers(0, 8))]}


def run_case(ctx, case):
    U = ux.ux()
    d = case["mesh"]
    m = gen.build(d)
    if ctx.mode == "jit-off" and m.n_face > 120:
        return
    source = case.get("source", "topology")
    if source.startswith("centres_xyz"):
        # the source ships Cartesian face centres on a sphere of Earth radius (metres), as production meshes do
        C = np.array([ref.unit(m.ring_pos(i).mean(axis=0)) for i in range(m.n_face)]) * 6371229.0
        extra = {"face_x": C[:, 0], "face_y": C[:, 1], "face_z": C[:, 2]}
        if source == "centres_xyz_and_lonlat_metres":
            cl, ca = ref.xyz_to_lonlat(C)
            extra.update(face_lon=np.array(cl), face_lat=np.array(ca))
        g = ux.grid_from_mesh(m, extra=extra)
    elif source == "mpas" and ref.is_manifold(m.faces):
        from .. import dialects

        try:
            ds, info = dialects.mpas_dataset(m, np.random.default_rng(case["dseed"]), force={"xyz": True, "radius": 6371229.0})
            # cell centres exactly at the normalised corner mean, so that "the face's centre" is unambiguous
            C = np.array([ref.unit(m.ring_pos(i).mean(axis=0)) for i in range(m.n_face)])
            cl, ca = ref.xyz_to_lonlat(C)
            ds["lonCell"] = ds["lonCell"].copy(data=np.mod(np.deg2rad(cl), 2 * np.pi))
            ds["latCell"] = ds["latCell"].copy(data=np.deg2rad(ca))
            for k_, ax in enumerate("xyz"):
                if ax + "Cell" in ds:
                    ds[ax + "Cell"] = ds[ax + "Cell"].copy(data=C[:, k_] * 6371229.0)
            g = U.open_grid(ds)
        except Exception as e:
            ctx.check("no_exception", False, {"stage": "open_mpas", "exc": core.exc_sig(e)}, {"exc": repr(e), "mesh": d})
            return
    elif source == "topology_with_node_faces":
        # the caller ships the node->faces table too, in its own convention (one-based, padded with -1 / 0), like the face table
        nfm_ = ref.node_faces(m.faces, m.n_node)
        fillv, start = [(-1, 0), (-1, 1), (0, 1), (-999, 0)][case["dseed"] % 4]
        wn = max(1, max(len(v) for v in nfm_.values()))
        nf_tab = np.full((m.n_node, wn), fillv, dtype=np.int64)
        for n_, fs in nfm_.items():
            fs = sorted(fs)
            nf_tab[n_, : len(fs)] = np.array(fs, dtype=np.int64) + start
        conn = m.padded(fill=0).astype(np.int64) + start
        conn[m.padded() == ux.INT_FILL] = fillv
        lon, lat = m.lonlat()
        try:
            g = U.Grid.from_topology(np.array(lon), np.array(lat), conn, fill_value=fillv, start_index=start, node_face_connectivity=nf_tab)
        except Exception as e:
            ctx.check("no_exception", False, {"stage": "open_with_node_faces", "exc": core.exc_sig(e)}, {"exc": repr(e), "mesh": d})
            return
    elif source == "topology_float32" and min(float(ref.angle(m.xyz[a], m.xyz[b])) for f in m.faces for a, b in zip(f, f[1:] + f[:1])) > 1e-4:
        # single-precision node coordinates (what most model output files carry): the mesh judged is the one those values denote
        lon, lat = m.lonlat()
        lon32, lat32 = np.asarray(lon, dtype=np.float32), np.asarray(lat, dtype=np.float32)
        m = gen.Mesh(ref.lonlat_to_xyz(lon32.astype(float), lat32.astype(float)), m.faces, dict(d, float32=True), m.closed)
        try:
            g = U.Grid.from_topology(lon32, lat32, m.padded(), fill_value=ux.INT_FILL)
        except Exception as e:
            ctx.check("no_exception", False, {"stage": "open_float32", "exc": core.exc_sig(e)}, {"exc": repr(e), "mesh": d})
            return
    else:
        source = "topology"
        g = ux.grid_from_mesh(m)
    ctx.observe("source_" + source)
    dual = check_dual(ctx, case, g, m, {"closed": bool(m.closed), "source": source})
    if dual is None:
        return
    # the dual of grids DERIVED from this one (after the source has built its own node->faces table for the dual above):
    # face subsets that renumber and remove faces, judged against the faces and nodes the subset itself reports
    rng = np.random.default_rng(case["dseed"] + 11)
    if m.n_face >= 6:
        picks = {"permutation": rng.permutation(m.n_face), "band_removed": np.nonzero(np.abs(np.array([ref.unit(m.ring_pos(i).mean(axis=0))[2] for i in range(m.n_face)])) > 0.25)[0],
                 "random_half": np.sort(rng.choice(m.n_face, size=max(3, m.n_face // 2), replace=False))}
        for how, idx in picks.items():
            if len(idx) < 3:
                continue
            try:
                sub = g.isel(n_face=np.asarray(idx, dtype=int))
                rows = ux.rows(sub.face_node_connectivity.values)
                sm = gen.Mesh(ux.grid_node_xyz(sub), rows, dict(m.desc, derived=how), bool(m.closed and how == "permutation"))
            except Exception as e:
                ctx.check("no_exception", False, {"stage": "subset_" + how, "exc": core.exc_sig(e)}, {"exc": repr(e), "mesh": d})
                continue
            check_dual(ctx, case, sub, sm, {"closed": bool(sm.closed), "grid": "face_subset_" + how}, with_data=False)
            ctx.observe("derived_grid_" + how)


def check_dual(ctx, case, g, m, sig0, with_data=True):
    U = ux.ux()
    d = case["mesh"]
    nfm = ref.node_faces(m.faces, m.n_node)
    efm = ref.edge_faces(m.faces)
    want_nodes = [n for n in range(m.n_node) if len(nfm[n]) >= 3]
    snapped = any(o[0] == "snap" for o in d.get("ops", []))
    if not want_nodes:
        # nothing to build: the library may raise or return an empty grid; not demanded
        ctx.observe("no_dual_face_possible")
        try:
            g.get_dual()
        except Exception:
            pass
        return None
    try:
        dual = g.get_dual()
    except Exception as e:
        ctx.check("no_exception", False, dict(sig0, exc=core.exc_sig(e)), {"exc": repr(e), "mesh": d})
        return None
    ctx.check("no_exception", True)
    # counts
    ok = dual.n_node == m.n_face and dual.n_face == len(want_nodes)
    ctx.check("counts", ok, sig0, {"dual_n_node": dual.n_node, "n_face": m.n_face, "dual_n_face": dual.n_face, "want": len(want_nodes), "mesh": d})
    if not ok:
        return None
    # positions: dual node k at primal face k's centre (normalised corner mean)
    cent = np.array([ref.unit(m.ring_pos(i).mean(axis=0)) for i in range(m.n_face)])
    dpos = ux.grid_node_xyz(dual)
    # centres inside the library's pole-snapping band (|z| > 1 - 1e-8, sanctioned by C04) are reported at the pole
    # (single-precision sources: the centres are derived in the source's precision, 1e-6 rad)
    err = float(np.max(ref.angle(cent, dpos) - np.where(np.abs(cent[:, 2]) > 1 - 1.01e-8 - (1e-5 if m.desc.get("float32") else 0), 1.5e-4 if not m.desc.get("float32") else 2e-3, 1e-9 if not m.desc.get("float32") else 1e-6)))
    ctx.check("node_at_face_centre", err < 0, sig0, {"max_err_over_tolerance_rad": err, "mesh": d})
    rows = ux.rows(dual.face_node_connectivity.values)
    probs = ux.standard_table(dual.face_node_connectivity, dual.n_node)
    ctx.check("padding_end", not probs, dict(sig0, problem=probs[0] if probs else ""), {"problems": probs, "mesh": d})
    max_val = 0
    for k, n in enumerate(want_nodes):
        ring = rows[k]
        val = len(nfm[n])
        max_val = max(max_val, val)
        interior = all(len(efm[e]) == 2 for e in efm if n in e)
        sig = dict(sig0, interior=interior, valence=min(val, 9))
        okset = len(ring) == len(set(ring)) and set(ring) == nfm[n]
        ctx.check("corner_set", okset, sig, {"node": n, "got": ring, "want": sorted(nfm[n]), "mesh": d})
        if not okset:
            continue
        # angular order about the node, counter-clockwise seen from outside
        nv = m.xyz[n]
        t = np.array([1.0, 0, 0]) if abs(nv[0]) < 0.9 else np.array([0, 1.0, 0])
        e1 = ref.unit(t - np.dot(t, nv) * nv)
        e2 = np.cross(nv, e1)
        th = np.array([math.atan2(np.dot(cent[f] - nv, e2), np.dot(cent[f] - nv, e1)) for f in ring])
        rel = np.mod(th - th[0], 2 * math.pi)
        ctx.check("ccw_order", bool(np.all(np.diff(rel) > 1e-12)), sig, {"node": n, "ring": ring, "rel_angles": rel.tolist(), "mesh": d})
        # consecutive corners share an edge: only where the faces at the node lie within a hemisphere about it - a face reaching
        # further round the sphere (edges of almost 180 degrees) has its centre in a direction that says nothing about its wedge
        local = all(float(np.dot(m.xyz[v], nv)) > 0.1 for f in ring for v in m.faces[f])
        if interior and not local:
            ctx.observe("node_with_face_beyond_hemisphere")
        if interior and local:
            # mechanism feature: does some face at this node have its centre outside the wedge it occupies at the node (possible only
            # for a non-convex face)?  The library orders by the direction of the centres.
            outside = reflex = False
            for f in ring:
                ff = m.faces[f]
                j = ff.index(n)
                nxt, prv = m.xyz[ff[(j + 1) % len(ff)]], m.xyz[ff[j - 1]]
                ang = lambda p: math.atan2(np.dot(p - nv, e2), np.dot(p - nv, e1))  # noqa: E731
                a0_, a1_, ac_ = ang(nxt), ang(prv), ang(cent[f])
                if not (np.mod(ac_ - a0_, 2 * math.pi) < np.mod(a1_ - a0_, 2 * math.pi)):
                    outside = True
                if np.mod(a1_ - a0_, 2 * math.pi) >= math.pi - 1e-6:
                    reflex = True  # the face's corner at this node is not convex (180 degrees or more)
            sig = dict(sig, centre_outside_wedge=outside, reflex_corner_at_node=reflex)
            adj = True
            for j in range(len(ring)):
                a, b = ring[j], ring[(j + 1) % len(ring)]
                shared = set(ref.face_edges(m.faces[a])) & set(ref.face_edges(m.faces[b]))
                if not any(n in e for e in shared):
                    adj = False
                    break
            ctx.check("interior_adjacent", adj, sig, {"node": n, "ring": ring, "mesh": d})
    # data
    if m.closed and with_data:
        rng = np.random.default_rng(case["dseed"])
        for kind, n_el, dual_dim in (("n_face", m.n_face, "n_node"), ("n_node", m.n_node, "n_face")):
            # any leading and trailing dimensions: the element dimension may sit anywhere
            lead = [int(x) for x in rng.integers(1, 4, size=int(rng.integers(0, 3)))]
            trail = [int(x) for x in rng.integers(2, 4, size=int(rng.integers(0, 2)))]
            shape = tuple(lead) + (n_el,) + tuple(trail)
            data = np.arange(int(np.prod(shape, dtype=int)), dtype=float).reshape(shape) + 0.25
            ldims = ["t%d" % i for i in range(len(lead))]
            tdims = ["lev%d" % i for i in range(len(trail))]
            da = U.UxDataArray(data.copy(), dims=ldims + [kind] + tdims, uxgrid=g, name="q")
            pos = "last" if not trail else ("first" if not lead else "middle")
            try:
                r = da.get_dual()
            except Exception as e:
                ctx.check("data", False, dict(sig0, kind=kind, element_dim=pos, exc=core.exc_sig(e)), {"exc": repr(e), "mesh": d})
                continue
            ok = (isinstance(r, U.UxDataArray) and tuple(r.dims) == tuple(ldims + [dual_dim] + tdims)
                  and np.array_equal(np.asarray(r.values), data) and r.uxgrid is not None
                  and r.uxgrid.n_node == m.n_face and r.uxgrid.n_face == m.n_node and r.name == "q")
            ctx.check("data", ok, dict(sig0, kind=kind, element_dim=pos), {"dims": list(r.dims), "want_dims": ldims + [dual_dim] + tdims, "mesh": d})
            ctx.observe("data_element_dim_" + pos)
    if max_val >= 5 or not m.closed or snapped:
        ctx.mark_nontrivial()
    ctx.observe("meshes_" + ("closed" if m.closed else "partial"))
    ctx.observe("max_valence_%d" % min(max_val, 9))
    if snapped:
        ctx.observe("snapped_placement")
    if with_data:
        ctx.sample({"mesh": d, "stats": ux.mesh_stats(m), "dual_faces": len(want_nodes), "max_valence": max_val})
    return dual
