"""C10 - xarray operations keep a UxDataArray attached to a consistent grid.

Lockstep shadow execution: every program runs on the UxDataArray and on a plain xarray.DataArray built from
the same data; after every step the result is compared with the shadow and the standing invariants are evaluated.
"""

import copy
import warnings

import numpy as np

from .. import gen, ref, ux, core

PROPERTY = "C10"
SHARDS = {"quick": 6, "thorough": 16}
RULE = (
    "cases: programs op_n(...op_1(uxda)) of depth 1..4 over a catalogue of ~110 operations (incl. NumPy functions with several outputs: every output judged; arrays carrying auxiliary coordinates along the element dimension, scalar and 2-D coordinates: the result's coordinates equal the plain result's) tagged with the family the property names "
    "(arithmetic/NumPy, where/clip/fillna/astype, indexing on non-grid dimensions in every spelling, reductions, cumulative and "
    "rolling operations, transposition, renaming, coordinate assignment, concatenation, shallow/deep copies) interleaved with uxarray's "
    "own operations (grid-dimension indexing through isel kwargs / positional dict / [] / head / tail / thin with sorted, shuffled, repeated, boolean-mask (numpy and DataArray), negative-step and one-element indexers, where(..., drop=True) over a grid dimension, remap, integrate, gradient, difference, "
    "topological aggregation, get_dual); data face-, node- or edge-centred with 0..2 leading dimensions (one with a coordinate), "
    "float64/float32/int64/bool. Every single operation is run on every data kind (complete over the catalogue), then seeded random "
    "programs. After every step: result is a UxDataArray; attached to the same grid object (deep copies: an equal, distinct grid); dims, "
    "shape and values equal the shadow's (exact, NaN-aware); every n_node/n_edge/n_face dimension has the length of its grid's count. "
    "uxarray's own operations advance only the uxarray side and are followed by the invariants; the shadow is re-based on their result. "
    "Non-trivial = depth >= 2, or the operation changes the element dimension."
)
ASSUMPTIONS = [
    "plain xarray (same installed version) is the reference for values",
    "indexing ON a grid dimension is one of uxarray's own operations (the grid cannot stay the same): only the invariants are demanded of it",
    "UxDataset is not exercised (its constructor is incompatible with the installed xarray)",
]
MIN_EVAL = {"quick": {"is_uxda": 1500, "grid_attached": 1200, "values_equal_shadow": 1200, "grid_dims_consistent": 1500},
            "thorough": {"is_uxda": 40000, "grid_attached": 32000, "values_equal_shadow": 32000, "grid_dims_consistent": 40000}}

GRID_DIMS = ("n_node", "n_edge", "n_face")


def lead_dims(a):
    return [d for d in a.dims if d not in GRID_DIMS]


def gdim(a):
    for d in a.dims:
        if d in GRID_DIMS:
            return d
    return None


def _need_lead(a):
    return len(lead_dims(a)) > 0


def _lead(a):
    return lead_dims(a)[0]


def _float(a):
    return a.dtype.kind == "f"


def _num(a):
    return a.dtype.kind in "fiu"


# name -> (family, applicable(a), fn(a))  -- fn must work identically on UxDataArray and xr.DataArray
def _lead_mask(a):
    """False for the first label of the leading dimension: where(..., drop=True) removes that label."""
    import xarray as xr

    d = _lead(a)
    return xr.DataArray(np.arange(a.sizes[d]) >= 1, dims=[d])


def catalogue():
    import xarray as xr

    C = {}

    def add(name, fam, fn, ok=lambda a: True):
        C[name] = (fam, ok, fn)

    # arithmetic and NumPy functions
    add("add_scalar", "arithmetic", lambda a: a + 1)
    add("mul_self", "arithmetic", lambda a: a * a, _num)
    add("neg", "arithmetic", lambda a: -a, _num)
    add("rsub", "arithmetic", lambda a: 3 - a, _num)
    add("pow2", "arithmetic", lambda a: a ** 2, _num)
    add("truediv", "arithmetic", lambda a: a / 2, _num)
    add("compare_gt", "arithmetic", lambda a: a > 2)
    add("abs", "arithmetic", lambda a: abs(a), _num)
    add("add_self_first_lead", "arithmetic", lambda a: a + a.isel({_lead(a): 0}), lambda a: _need_lead(a) and _num(a))
    add("np_sin", "numpy", lambda a: np.sin(a), _num)
    add("np_add", "numpy", lambda a: np.add(a, a), _num)
    add("np_sqrt_abs", "numpy", lambda a: np.sqrt(np.abs(a)), _num)
    add("np_isfinite", "numpy", lambda a: np.isfinite(a), _num)
    add("round", "numpy", lambda a: a.round(1), _float)
    # NumPy functions with several outputs: a tuple of arrays comes back, each of them is a result
    add("np_modf", "numpy_multi", lambda a: np.modf(a), _float)
    add("np_frexp", "numpy_multi", lambda a: np.frexp(a), _float)
    add("np_divmod", "numpy_multi", lambda a: np.divmod(a, 2), lambda a: a.dtype.kind in "fi")
    add("divmod_builtin", "numpy_multi", lambda a: divmod(a, 2), lambda a: a.dtype.kind in "fi")
    # where / clip / fillna / astype
    add("where_cond", "where", lambda a: a.where(a > 2), _num)
    add("where_other", "where", lambda a: a.where(a > 2, 0), _num)
    add("where_drop_lead", "where", lambda a: a.where(_lead_mask(a), drop=True), lambda a: _need_lead(a) and _num(a) and a.sizes[_lead(a)] >= 2)
    add("clip", "where", lambda a: a.clip(1, 4), _num)
    add("fillna", "where", lambda a: a.fillna(7), _float)
    add("where_fillna", "where", lambda a: a.where(a > 2).fillna(-1), _num)
    add("astype_f32", "where", lambda a: a.astype("float32"))
    add("astype_int", "where", lambda a: a.astype("int64"), lambda a: a.dtype.kind in "biu" or (a.dtype.kind == "f" and bool(np.all(np.isfinite(np.asarray(a.values))))))
    add("astype_f64", "where", lambda a: a.astype("float64"))
    add("isnull", "where", lambda a: a.isnull())
    add("notnull", "where", lambda a: a.notnull())
    # indexing on non-grid dimensions
    add("isel_kw", "indexing", lambda a: a.isel(**{_lead(a): 0}), _need_lead)
    add("isel_dict", "indexing", lambda a: a.isel({_lead(a): 0}), _need_lead)
    add("isel_list", "indexing", lambda a: a.isel({_lead(a): [0, -1]}), _need_lead)
    add("isel_slice", "indexing", lambda a: a.isel({_lead(a): slice(0, 1)}), _need_lead)
    add("getitem_lead", "indexing", lambda a: a[{_lead(a): 0}], _need_lead)
    add("getitem_first_axis", "indexing", lambda a: a[0], lambda a: a.ndim >= 2 and a.dims[0] not in GRID_DIMS)
    add("sel_coord", "indexing", lambda a: a.sel({"t": float(a["t"].values[0])}), lambda a: "t" in a.dims and "t" in a.coords)
    add("head", "indexing", lambda a: a.head({_lead(a): 1}), _need_lead)
    add("tail", "indexing", lambda a: a.tail({_lead(a): 1}), _need_lead)
    add("thin", "indexing", lambda a: a.thin({_lead(a): 2}), _need_lead)
    add("head_zero", "indexing", lambda a: a.head({_lead(a): 0}), _need_lead)
    add("tail_zero", "indexing", lambda a: a.tail({_lead(a): 0}), _need_lead)
    add("tail_all", "indexing", lambda a: a.tail({_lead(a): a.sizes[_lead(a)]}), _need_lead)
    add("thin_one", "indexing", lambda a: a.thin({_lead(a): 1}), _need_lead)
    add("loc", "indexing", lambda a: a.loc[{"t": float(a["t"].values[-1])}], lambda a: "t" in a.dims and "t" in a.coords)
    # reductions along non-grid dimensions
    for r in ("sum", "mean", "max", "min", "std", "prod", "median", "var"):
        add("reduce_" + r, "reduction", (lambda r_: (lambda a: getattr(a, r_)(_lead(a))))(r), lambda a: _need_lead(a) and _num(a))
    add("reduce_any", "reduction", lambda a: a.any(_lead(a)), lambda a: _need_lead(a) and a.dtype.kind == "b")
    add("reduce_all", "reduction", lambda a: a.all(_lead(a)), lambda a: _need_lead(a) and a.dtype.kind == "b")
    add("reduce_count", "reduction", lambda a: a.count(_lead(a)), _need_lead)
    add("reduce_argmax", "reduction", lambda a: a.argmax(_lead(a)), lambda a: _need_lead(a) and _num(a) and not bool(np.any(np.isnan(np.asarray(a.values, dtype=float)))))
    add("reduce_func", "reduction", lambda a: a.reduce(np.sum, dim=_lead(a)), lambda a: _need_lead(a) and _num(a))
    add("reduce_all_lead", "reduction", lambda a: a.sum(lead_dims(a)), lambda a: len(lead_dims(a)) >= 2 and _num(a))
    # reductions over the grid dimension itself: the result has no grid dimension left but is still an array on that grid
    add("sum_over_grid_dim", "reduction", lambda a: a.sum(gdim(a)), lambda a: gdim(a) is not None and _num(a))
    add("max_over_grid_dim", "reduction", lambda a: a.max(gdim(a)), lambda a: gdim(a) is not None and _num(a))
    add("mean_over_everything", "reduction", lambda a: a.mean(), _num)
    # cumulative and rolling along non-grid dimensions
    add("cumsum", "cumulative", lambda a: a.cumsum(_lead(a)), lambda a: _need_lead(a) and _num(a))
    add("cumprod", "cumulative", lambda a: a.cumprod(_lead(a)), lambda a: _need_lead(a) and _num(a))
    add("rolling_mean", "rolling", lambda a: a.rolling({_lead(a): 2}).mean(), lambda a: _need_lead(a) and _num(a))
    add("rolling_sum_center", "rolling", lambda a: a.rolling({_lead(a): 2}, center=True, min_periods=1).sum(), lambda a: _need_lead(a) and _num(a))
    add("rolling_max", "rolling", lambda a: a.rolling({_lead(a): 2}, min_periods=1).max(), lambda a: _need_lead(a) and _num(a))
    add("coarsen_mean", "coarsen", lambda a: a.coarsen({_lead(a): 2}, boundary="trim").mean(), lambda a: _need_lead(a) and _num(a) and a.sizes[_lead(a)] >= 2)
    add("coarsen_max", "coarsen", lambda a: a.coarsen({_lead(a): 2}, boundary="pad").max(), lambda a: _need_lead(a) and _num(a))
    # shifting, differencing, padding, ordering, ranking along non-grid dimensions
    add("shift", "shift", lambda a: a.shift({_lead(a): 1}), lambda a: _need_lead(a) and _float(a))
    add("roll", "shift", lambda a: a.roll({_lead(a): 1}, roll_coords=False), _need_lead)
    add("diff", "shift", lambda a: a.diff(_lead(a)), lambda a: _need_lead(a) and _num(a) and a.dtype.kind != "b" and a.sizes[_lead(a)] >= 2)
    add("pad", "shift", lambda a: a.pad({_lead(a): (1, 1)}, mode="edge"), _need_lead)
    add("sortby", "shift", lambda a: a.sortby(_lead(a), ascending=False), lambda a: _need_lead(a) and _lead(a) in a.coords)
    add("quantile", "reduction", lambda a: a.quantile(0.5, dim=_lead(a)), lambda a: _need_lead(a) and _float(a))
    add("quantile_list", "reduction", lambda a: a.quantile([0.25, 0.75], dim=_lead(a)), lambda a: _need_lead(a) and _float(a) and "quantile" not in a.dims)
    add("rank", "shift", lambda a: a.rank(_lead(a)), lambda a: False)  # needs bottleneck: not installed
    add("ffill_numpy", "where", lambda a: a.where(a > 2).fillna(a.mean()), _float)
    add("idxmax", "reduction", lambda a: a.idxmax(_lead(a)), lambda a: _need_lead(a) and _float(a) and _lead(a) in a.coords and not bool(np.any(np.isnan(np.asarray(a.values, dtype=float)))))
    add("weighted_mean", "reduction", lambda a: a.weighted(xr.DataArray(np.arange(1, a.sizes[_lead(a)] + 1, dtype=float), dims=[_lead(a)])).mean(_lead(a)), lambda a: _need_lead(a) and _float(a))
    add("groupby_mean", "reduction", lambda a: a.groupby(xr.DataArray(np.arange(a.sizes[_lead(a)]) % 2, dims=[_lead(a)], name="parity")).mean(), lambda a: _need_lead(a) and _float(a) and "parity" not in a.dims)
    add("squeeze_after_slice", "indexing", lambda a: a.isel({_lead(a): slice(0, 1)}).squeeze(_lead(a)), _need_lead)
    add("drop_vars", "assign_coords", lambda a: a.drop_vars(_lead(a)), lambda a: _need_lead(a) and _lead(a) in a.coords)
    add("reset_coords", "assign_coords", lambda a: a.assign_coords(height=2.0).reset_coords("height", drop=True))
    add("broadcast_like", "arithmetic", lambda a: a.isel({_lead(a): 0}).broadcast_like(a), _need_lead)
    add("dot_lead", "reduction", lambda a: a.dot(xr.DataArray(np.ones(a.sizes[_lead(a)]), dims=[_lead(a)])), lambda a: _need_lead(a) and _float(a))
    add("round", "arithmetic", lambda a: a.round(1), _float)
    add("np_sqrt_abs", "arithmetic", lambda a: np.sqrt(np.abs(a)), _num)
    add("interp_lead", "indexing", lambda a: a.interp({"t": float(a["t"].values[0]) + 0.5}), lambda a: "t" in a.dims and "t" in a.coords and _float(a) and a.sizes["t"] >= 2)
    # transposition
    add("T", "transpose", lambda a: a.T)
    add("transpose_rev", "transpose", lambda a: a.transpose(*a.dims[::-1]))
    add("transpose_ellipsis", "transpose", lambda a: a.transpose(gdim(a), ...), lambda a: gdim(a) is not None)
    # renaming
    add("rename_var", "rename", lambda a: a.rename("w"))
    add("rename_dim", "rename", lambda a: a.rename({_lead(a): _lead(a) + "x"}), lambda a: _need_lead(a) and not _lead(a).endswith("xx"))
    # coordinate assignment
    add("assign_coords_lead", "assign_coords", lambda a: a.assign_coords({_lead(a): np.arange(a.sizes[_lead(a)]) * 3.0}), _need_lead)
    add("assign_coords_scalar", "assign_coords", lambda a: a.assign_coords(height=2.0))
    add("assign_attrs", "assign_coords", lambda a: a.assign_attrs(units="K"))
    # concatenation along non-grid dimensions
    add("concat_lead", "concat", lambda a: xr.concat([a, a], dim=_lead(a)), _need_lead)
    add("concat_new", "concat", lambda a: xr.concat([a, a + 1], dim="member"), lambda a: "member" not in a.dims and _num(a))
    add("expand_dims", "concat", lambda a: a.expand_dims("z"), lambda a: "z" not in a.dims)
    # copies
    add("copy_shallow", "copy", lambda a: a.copy(deep=False))
    add("copy_deep", "copy_deep", lambda a: a.copy(deep=True))
    add("copy_default", "copy_deep", lambda a: a.copy())
    add("deepcopy", "copy_deep", lambda a: copy.deepcopy(a))
    add("copy_copy", "copy", lambda a: copy.copy(a))
    return C


OWN = ["grid_isel_kw", "grid_isel_dict", "grid_getitem", "grid_head", "grid_isel_with_lead", "grid_isel_bool", "grid_isel_bool_da", "grid_isel_shuffled", "grid_isel_repeated",
       "grid_isel_negstep", "grid_isel_scalar", "grid_tail", "grid_thin", "grid_where_drop", "grid_where_drop_other", "grid_where_drop_lead_and_values", "integrate", "gradient", "difference", "topological_mean", "remap_nn", "remap_idw", "get_dual"]


def own_applicable(name, a):
    d = gdim(a)
    if d is None:
        return False
    n = a.sizes[d]
    if name in ("grid_isel_kw", "grid_isel_dict", "grid_getitem", "grid_head", "grid_isel_bool", "grid_isel_bool_da", "grid_isel_shuffled", "grid_isel_repeated", "grid_isel_negstep",
                "grid_isel_scalar", "grid_tail", "grid_thin"):
        return n >= 2 and getattr(a, "uxgrid", True) is not None
    if name in ("grid_where_drop", "grid_where_drop_other"):
        return n >= 2 and _num(a) and a.dtype.kind == "f"
    if name == "grid_where_drop_lead_and_values":
        return n >= 2 and _num(a) and a.dtype.kind == "f" and _need_lead(a) and a.sizes[_lead(a)] >= 2
    if name == "grid_isel_with_lead":
        return n >= 2 and _need_lead(a) and a.sizes[_lead(a)] >= 1
    if name == "integrate":
        return d == "n_face" and _num(a) and a.dims[-1] == d
    if name in ("gradient",):
        return d == "n_face" and _float(a) and a.dims[-1] == d
    if name == "difference":
        return d in ("n_face", "n_node") and _float(a) and a.dims[-1] == d
    if name == "topological_mean":
        return d == "n_node" and _float(a) and a.dims[-1] == d
    if name in ("remap_nn", "remap_idw"):
        return _float(a) and a.dims[-1] == d and n >= 3
    if name == "get_dual":
        if d not in ("n_face", "n_node"):
            return False
        try:  # a dual face needs a node with at least three faces
            nf = np.asarray(a.uxgrid.node_face_connectivity.values)
            return bool(np.any(np.sum(nf != ux.INT_FILL, axis=1) >= 3))
        except Exception:
            return True
    return False


def apply_own(name, a, other_grid, rng):
    d = gdim(a)
    n = a.sizes[d]
    idx = sorted(int(i) for i in rng.choice(n, size=max(1, n // 2), replace=False))
    if name == "grid_isel_kw":
        return a.isel(**{d: idx})
    if name == "grid_isel_dict":
        return a.isel({d: idx})
    if name == "grid_getitem":
        return a[{d: slice(0, max(1, n // 2))}]
    if name == "grid_head":
        return a.head({d: max(1, n // 2)})
    if name == "grid_isel_with_lead":
        return a.isel({_lead(a): 0, d: idx})
    if name in ("grid_isel_bool", "grid_isel_bool_da"):
        mask = np.zeros(n, dtype=bool)
        mask[idx] = True
        if name == "grid_isel_bool_da":
            import xarray as xr

            return a.isel({d: xr.DataArray(mask, dims=[d])})
        return a.isel({d: mask})
    if name == "grid_isel_shuffled":
        return a.isel({d: [int(i) for i in rng.permutation(idx)]})
    if name == "grid_isel_repeated":
        return a.isel({d: [idx[0]] + idx + [idx[-1]]})
    if name == "grid_isel_negstep":
        return a.isel({d: slice(None, None, -1)}) if rng.random() < 0.5 else a[{d: slice(n - 1, 0, -2)}]
    if name == "grid_isel_scalar":
        return a.isel({d: np.array([idx[-1]])})
    if name == "grid_tail":
        return a.tail({d: max(1, n // 2)})
    if name == "grid_thin":
        return a.thin({d: 2})
    if name in ("grid_where_drop", "grid_where_drop_other"):
        # a condition that is False for whole elements of the grid dimension: those elements are dropped
        v = np.asarray(a.values, dtype=float)
        red = np.nanmax(v, axis=tuple(i for i, dd in enumerate(a.dims) if dd != d)) if v.ndim > 1 else v
        thr = float(np.nanmedian(red)) if np.any(np.isfinite(red)) else 0.0
        if not np.any(red > thr):
            thr = (float(np.nanmin(red)) if np.any(np.isfinite(red)) else 0.0) - 1.0  # equal values everywhere: keep every element
        if not np.any(red > thr):  # nothing but missing values
            return a.where(a.notnull() | a.isnull(), drop=True)
        if name == "grid_where_drop_other":
            return a.where(a > thr, -5.0, drop=True)
        return a.where(a > thr, drop=True)
    if name == "grid_where_drop_lead_and_values":
        v = np.take(np.asarray(a.values, dtype=float), np.arange(1, a.sizes[_lead(a)]), axis=list(a.dims).index(_lead(a)))  # the labels the mask keeps
        red = np.nanmax(v, axis=tuple(i for i, dd in enumerate(a.dims) if dd != d))
        thr = float(np.nanmedian(red)) if np.any(np.isfinite(red)) else 0.0
        if not np.any(red > thr):
            thr = (float(np.nanmin(red)) if np.any(np.isfinite(red)) else 0.0) - 1.0
        if not np.any(red > thr):  # nothing but missing values: keep every element
            return a.where(_lead_mask(a), 0, drop=True)
        return a.where(_lead_mask(a) & (a > thr), 0, drop=True)
    if name == "integrate":
        return a.integrate()
    if name == "gradient":
        return a.gradient()
    if name == "difference":
        return a.difference(destination="edge")
    if name == "topological_mean":
        return a.topological_mean(destination="face")
    if name == "remap_nn":
        return a.remap.nearest_neighbor(other_grid, remap_to=["nodes", "face centers", "edge centers"][int(rng.integers(0, 3))])
    if name == "remap_idw":
        return a.remap.inverse_distance_weighted(other_grid, remap_to="face centers", k=2)
    if name == "get_dual":
        return a.get_dual()
    raise ValueError(name)


def cases(tier, seed):
    rng = np.random.default_rng([seed, 1010])
    names = sorted(catalogue().keys())
    for kind in ("n_face", "n_node", "n_edge"):
        for dt in ("float64", "int64", "bool", "float32"):
            for nm in names + OWN:
                yield {"mesh": {"family": "polyhedron", "name": ["cube", "prism6", "pyramid"][len(nm) % 3], "ops": [["partial", [len(nm), 0.7, "random"]]] if len(nm) % 2 else []},
                       "kind": kind, "dtype": dt, "lead": [3, 2], "program": [nm], "dseed": len(nm)}
    # every own operation also after a transposition (element dimension first) and after an indexing step
    for kind in ("n_face", "n_node", "n_edge"):
        for nm in OWN:
            for pre in ("transpose_rev", "isel_list", "copy_deep"):
                yield {"mesh": {"family": "polyhedron", "name": "prism6", "ops": [["partial", [len(nm), 0.7, "random"]]] if len(nm) % 2 else []},
                       "kind": kind, "dtype": "float64", "lead": [2, 3], "program": [pre, nm], "dseed": len(nm) + len(pre)}
    # ... and every kind of copy after every operation that changes what the array is attached to / has no grid dimension left
    for kind in ("n_face", "n_node"):
        for nm in ("integrate", "gradient", "difference", "topological_mean", "remap_nn", "get_dual", "grid_isel_kw", "grid_where_drop", "sum_over_grid_dim", "max_over_grid_dim", "mean_over_everything"):
            for cp in ("copy_deep", "copy_default", "deepcopy"):
                yield {"mesh": {"family": "polyhedron", "name": "prism6", "ops": []}, "kind": kind, "dtype": "float64", "lead": [2], "program": [nm, cp, "np_sqrt_abs"], "dseed": len(nm) + len(cp)}
    n = 420 if tier == "quick" else 100000
    allops = names + OWN + OWN  # own operations twice as likely
    for i in range(n):
        depth = int(rng.integers(2, 5))
        yield {"mesh": gen.random_mesh(rng, 40), "kind": ["n_face", "n_node", "n_edge"][int(rng.integers(0, 3))],
               "dtype": ["float64", "float64", "float32", "int64", "bool"][int(rng.integers(0, 5))],
               "lead": [int(x) for x in rng.integers(2, 4, size=int(rng.integers(0, 3)))],
               "program": [allops[int(j)] for j in rng.integers(0, len(allops), size=depth)], "dseed": int(rng.integers(0, 10**6)),
               "backend": ["numpy", "numpy", "numpy", "dask_data", "dask_both"][int(rng.integers(0, 5))]}


def shadow_of(a):
    import xarray as xr

    s = xr.DataArray(np.array(a.values), dims=a.dims, coords={k: v.variable for k, v in a.coords.items()}, name=a.name, attrs=dict(a.attrs))
    if getattr(a, "chunks", None):
        s = s.chunk(dict(zip(a.dims, a.chunks)))  # plain xarray on dask behaves differently from plain xarray on numpy: same backing
    return s


F32 = [False]  # the case's data are single precision (results of some reductions are float64 all the same)


def same_values(r, s, exact=True):
    """exact=False (dask-backed operands): blocked reductions add in another order - floats to 1e-12 relative."""
    import xarray as xr

    if not isinstance(s, xr.DataArray):
        return True, None
    if tuple(r.dims) != tuple(s.dims):
        return False, "dims %s vs shadow %s" % (list(r.dims), list(s.dims))
    rv, sv = np.asarray(r.values), np.asarray(s.values)
    if rv.shape != sv.shape:
        return False, "shape %s vs shadow %s" % (list(rv.shape), list(sv.shape))
    if rv.dtype != sv.dtype and not (not exact and rv.dtype.kind == sv.dtype.kind == "f"):
        return False, "dtype %s vs shadow %s" % (rv.dtype, sv.dtype)
    if rv.dtype.kind in "fc":
        if not exact:
            scale = float(np.nanmax(np.abs(sv))) if sv.size and np.any(np.isfinite(sv)) else 1.0
            rt = 1e-5 if (rv.dtype.itemsize <= 4 or F32[0]) else 1e-12
            if not np.allclose(rv, sv, rtol=rt, atol=rt * max(scale, 1.0), equal_nan=True):
                return False, "values differ (max abs %r)" % float(np.nanmax(np.abs(rv.astype(float) - sv.astype(float))))
        elif not np.array_equal(rv, sv, equal_nan=True):
            return False, "values differ (max abs %r)" % float(np.nanmax(np.abs(rv.astype(float) - sv.astype(float))))
    elif not np.array_equal(rv, sv):
        return False, "values differ"
    if r.name != s.name:
        return False, "name %r vs shadow %r" % (r.name, s.name)
    # every coordinate plain xarray's result carries (index, auxiliary along any dimension, scalar) is carried with the same values
    for cn, cv in s.coords.items():
        if cn not in r.coords:
            return False, "coordinate %r of the plain result is missing" % cn
        rc = r.coords[cn]
        if tuple(rc.dims) != tuple(cv.dims) or not np.array_equal(np.asarray(rc.values), np.asarray(cv.values), equal_nan=(np.asarray(cv.values).dtype.kind == "f")):
            return False, "coordinate %r differs from the plain result's" % cn
    return True, None


def invariants(ctx, U, r, sig, det):
    isux = isinstance(r, U.UxDataArray)
    ctx.check("is_uxda", isux, sig, dict(det, got_type=type(r).__name__))
    if not isux:
        return False
    g = r.uxgrid
    ok, why = True, None
    for d, attr in (("n_node", "n_node"), ("n_edge", "n_edge"), ("n_face", "n_face")):
        if d in r.dims:
            if g is None:
                ok, why = False, "no grid but dimension %s" % d
                break
            try:
                cnt = int(getattr(g, attr))
            except Exception as e:
                ok, why = False, "grid.%s raised %r" % (attr, e)
                break
            if r.sizes[d] != cnt:
                ok, why = False, "%s has length %d, grid has %d" % (d, r.sizes[d], cnt)
                break
    ctx.check("grid_dims_consistent", ok, sig, dict(det, why=why, dims=list(r.dims)))
    return True


def run_case(ctx, case):
    import xarray as xr

    U = ux.ux()
    C = catalogue()
    m = gen.build(case["mesh"])
    g = ux.grid_from_mesh(m)
    rng = np.random.default_rng(case["dseed"])
    other = ux.grid_from_mesh(gen.polyhedron("octahedron"))
    n_el = {"n_face": g.n_face, "n_node": g.n_node, "n_edge": g.n_edge}[case["kind"]]
    lead = tuple(case["lead"])
    ldims = ["t", "lev"][: len(lead)]
    base = rng.normal(size=lead + (n_el,)) * 3 + 2
    if case["dtype"] == "int64":
        data = np.rint(base).astype("int64")
    elif case["dtype"] == "bool":
        data = base > 2
    else:
        data = base.astype(case["dtype"])
    coords = {"t": np.arange(lead[0]) * 1.5} if lead else {}
    if case["dseed"] % 2 == 0:  # an auxiliary (non-index) coordinate along the element dimension, e.g. the elements' ids
        coords["elem_id"] = ((case["kind"],), np.arange(n_el) * 10 + 3)
        ctx.observe("with_auxiliary_coordinate_on_element_dim")
    if case["dseed"] % 3 == 0:  # a scalar coordinate
        coords["run"] = 7.0
        ctx.observe("with_scalar_coordinate")
    if len(lead) >= 2 and case["dseed"] % 5 < 2:  # a two-dimensional auxiliary coordinate over a leading and the element dimension
        coords["w2d"] = ((ldims[1], case["kind"]), np.arange(lead[1] * n_el, dtype=float).reshape(lead[1], n_el))
        ctx.observe("with_2d_coordinate")
    coords = coords or None
    a = U.UxDataArray(data.copy(), dims=ldims + [case["kind"]], coords=coords, uxgrid=g, name="v")
    s = xr.DataArray(data.copy(), dims=ldims + [case["kind"]], coords=coords, name="v")
    backend = case.get("backend", "numpy")
    F32[0] = case["dtype"] == "float32"
    if backend == "dask_both":
        g.chunk()
    if backend in ("dask_data", "dask_both"):
        a = a.chunk({case["kind"]: max(1, n_el // 2)})
        s = s.chunk({case["kind"]: max(1, n_el // 2)})  # the shadow is plain xarray on dask too: what xarray itself rejects there is not a case
    ctx.observe("backend_" + backend)
    grid_now = g
    done = []
    changed_elem = False
    for step, nm in enumerate(case["program"]):
        det = {"program": case["program"], "done": list(done), "kind": case["kind"], "dtype": case["dtype"], "lead": case["lead"], "mesh": case["mesh"]}
        if nm in OWN:
            if not own_applicable(nm, a):
                ctx.observe("skipped_not_applicable")
                continue
            sig = {"op": nm, "family": "own", "kind": gdim(a), "depth": min(step + 1, 4)}
            try:
                with warnings.catch_warnings():
                    warnings.simplefilter("ignore")
                    r = apply_own(nm, a, other, np.random.default_rng([case["dseed"], step]))
            except Exception as e:
                if nm.startswith("grid_") and gdim(a) in ("n_node", "n_edge") and isinstance(e, ValueError) and "zero-size" in str(e):
                    # the indexed nodes / edges belong to no face (possible on duals of partial grids): nothing is selected, an
                    # error is admissible (as in C09)
                    ctx.observe("empty_selection_rejected")
                    break
                ctx.check("no_exception", False, dict(sig, exc=core.exc_sig(e)), dict(det, exc=repr(e)[:300]))
                break
            ctx.check("no_exception", True)
            if not isinstance(r, xr.DataArray):
                ctx.observe("own_op_returned_non_array")
                break
            if not invariants(ctx, U, r, sig, det):
                break
            ctx.check("grid_attached", r.uxgrid is not None, sig, dict(det, why="own operation returned an array without a grid"))
            if r.uxgrid is None:
                break
            if nm.startswith("grid_") and gdim(a) == "n_face":
                # indexing the face dimension selects exactly the indexed faces, in order: the values are what plain xarray
                # gives for the same indexer (node / edge indexing is inclusive - more elements come back - and is not compared)
                try:
                    s2 = apply_own(nm, s, other, np.random.default_rng([case["dseed"], step]))
                    okv, why = same_values(r, s2, exact=backend == "numpy")
                    ctx.check("values_equal_shadow", okv, sig, dict(det, why=why))
                except Exception as e:
                    ctx.observe("shadow_rejected:" + nm)
            a, s, grid_now = r, shadow_of(r), r.uxgrid
            changed_elem = True
            done.append(nm)
            ctx.observe("op_" + nm)
            continue
        fam, okf, fn = C[nm]
        try:
            if not okf(s):
                ctx.observe("skipped_not_applicable")
                continue
        except Exception:
            continue
        sig = {"op": nm, "family": fam, "kind": gdim(a) or "none", "depth": min(step + 1, 4), "dtype": str(a.dtype)}
        # the shadow first: an operation plain xarray rejects is not a case
        try:
            with warnings.catch_warnings():
                warnings.simplefilter("ignore")
                with np.errstate(all="ignore"):
                    s2 = fn(s)
        except Exception as e:
            ctx.observe("shadow_rejected:" + nm)
            continue
        try:
            with warnings.catch_warnings():
                warnings.simplefilter("ignore")
                with np.errstate(all="ignore"):
                    r = fn(a)
        except Exception as e:
            ctx.check("no_exception", False, dict(sig, exc=core.exc_sig(e)), dict(det, exc=repr(e)[:300]))
            break
        ctx.check("no_exception", True)
        if isinstance(s2, tuple) and s2 and all(isinstance(x, xr.DataArray) for x in s2):
            # several outputs: every one of them is judged; the program goes on with one of them
            okt = isinstance(r, tuple) and len(r) == len(s2)
            ctx.check("is_uxda", okt, dict(sig, what="tuple of results"), dict(det, got_type=type(r).__name__))
            if not okt:
                break
            bad = False
            for k_, (rk, sk) in enumerate(zip(r, s2)):
                sigk = dict(sig, output=k_)
                okv, why = same_values(rk, sk, exact=backend == "numpy") if isinstance(rk, xr.DataArray) else (False, "not an array: %s" % type(rk).__name__)
                ctx.check("values_equal_shadow", okv, sigk, dict(det, why=why))
                if not invariants(ctx, U, rk, sigk, det):
                    bad = True
                    continue
                ctx.check("grid_attached", rk.uxgrid is grid_now, dict(sigk, expect="same grid object"), dict(det, has_grid=rk.uxgrid is not None))
                bad = bad or not okv or rk.uxgrid is None
            if bad:
                break
            pick = (case["dseed"] + step) % len(s2)
            a, s = r[pick], s2[pick]
            done.append(nm)
            ctx.observe("op_" + nm)
            ctx.observe("family_" + fam)
            continue
        if not isinstance(s2, xr.DataArray):
            ctx.observe("result_not_an_array")
            break
        okv, why = same_values(r, s2, exact=backend == "numpy") if isinstance(r, xr.DataArray) else (False, "not an array: %s" % type(r).__name__)
        ctx.check("values_equal_shadow", okv, sig, dict(det, why=why))
        if not invariants(ctx, U, r, sig, det):
            break
        if fam == "copy_deep":
            try:
                okg = r.uxgrid is not None and r.uxgrid is not grid_now and bool(r.uxgrid == grid_now)
            except Exception as e:
                okg = False
            ctx.check("grid_attached", okg, dict(sig, expect="equal but distinct grid"), dict(det, same_object=r.uxgrid is grid_now, has_grid=r.uxgrid is not None))
            if okg:
                # ... and an independent one: a value written into the copy's grid does not appear in the original's
                try:
                    for vn in ("node_lon", "face_node_connectivity"):
                        theirs, ours = getattr(r.uxgrid, vn).values, np.array(getattr(grid_now, vn).values)
                        if isinstance(theirs, np.ndarray) and theirs.flags.writeable and theirs.size:
                            old = theirs.flat[0]
                            theirs.flat[0] = old + 1
                            same = np.array_equal(np.asarray(getattr(grid_now, vn).values), ours)
                            theirs.flat[0] = old
                            ctx.check("grid_attached", bool(same), dict(sig, expect="deep copy's grid is independent", var=vn), dict(det))
                except Exception as e:
                    ctx.observe("copy_independence_probe_failed:" + core.exc_sig(e))
            if r.uxgrid is not None:
                grid_now = r.uxgrid
        else:
            ctx.check("grid_attached", r.uxgrid is grid_now, dict(sig, expect="same grid object"), dict(det, has_grid=r.uxgrid is not None))
        if not okv or r.uxgrid is None:
            break
        if r.size == 0:
            done.append(nm)
            ctx.observe("op_" + nm)
            break  # nothing left to operate on
        a, s = r, s2
        done.append(nm)
        ctx.observe("op_" + nm)
        ctx.observe("family_" + fam)
    if len(done) >= 2 or changed_elem:
        ctx.mark_nontrivial()
    for i in range(1, len(done)):
        ctx.note_set("op_pairs", done[i - 1] + ">" + done[i])
    if len(done) >= 2:
        ctx.sample({"mesh": case["mesh"], "kind": case["kind"], "dtype": case["dtype"], "lead": case["lead"], "program_executed": done}, limit=3)
