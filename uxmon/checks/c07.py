"""C07 - encoding a grid and reading it back preserves the grid."""

import os

import numpy as np

from .. import gen, ref, ux, core, dialects, env

PROPERTY = "C07"
SHARDS = {"quick": 8, "thorough": 16}
RULE = (
    "cases: seeded meshes (uniform and mixed face sizes, partial / global, lon-lat-only and xyz-bearing sources: "
    "explicit topology, UGRID dataset, MPAS, Exodus, face vertices; UGRID / MPAS / Exodus sources also written to a NetCDF file and opened from its path, so that the grid carries the file's storage encodings) x output format {ugrid, exodus, scrip} x {direct "
    "dataset, NetCDF file} x {to_xarray, encode_as} x a seeded subset of derived quantities materialised first (edges, "
    "face_edge, node_face, face_face, centres, areas, bounds, distances, trees, hole edges) x a prefix of 0..3 "
    "encodings of OTHER grids (larger with edges / smaller without) in the same process x 0..2 earlier encodings of the SAME grid object in any format. Oracle: re-opened faces equal "
    "the generator's mesh (sequence for ugrid/scrip, multiset for exodus); every name in the UGRID topology metadata "
    "exists; the dataset can be written to NetCDF. Non-trivial = mixed face sizes, or a non-empty materialised set, or "
    "a non-empty prefix."
)
ASSUMPTIONS = ["readers are decided by C01; a re-opened grid is compared with the generator's mesh, not with the first grid"]
FORMATS = ["ugrid", "exodus", "scrip"]
MATERIALISE = ["edge_node_connectivity", "face_edge_connectivity", "node_face_connectivity", "face_face_connectivity", "edge_face_connectivity",
               "face_lon", "edge_lon", "node_x", "face_areas", "bounds", "edge_node_distances", "edge_face_distances", "hole_edge_indices",
               "ball_tree", "kd_tree", "n_nodes_per_face", "antimeridian_face_indices"]
MIN_EVAL = {"quick": {"roundtrip_faces": 250, "self_consistent": 80, "writable": 250}, "thorough": {"roundtrip_faces": 5000, "self_consistent": 1600, "writable": 5000}}
SOURCES = ["topology", "ugrid", "mpas", "exodus", "face_vertices_xyz", "ugrid_file", "ugrid_file", "mpas_file", "exodus_file"]


def cases(tier, seed):
    rng = np.random.default_rng([seed, 707])
    n = 340 if tier == "quick" else 30000
    for i in range(n):
        k = int(rng.integers(0, 5))
        yield {"mesh": gen.random_mesh(rng, 50 if tier == "quick" else 300, families=gen.DEFAULT_FAMILIES + ["sample"]), "fmt": FORMATS[i % 3], "via_file": bool(rng.random() < 0.4),
               "api": "encode_as" if rng.random() < 0.2 else "to_xarray", "source": SOURCES[int(rng.integers(0, len(SOURCES)))],
               "materialise": [MATERIALISE[int(j)] for j in rng.choice(len(MATERIALISE), size=k, replace=False)] if k else [],
               "prefix": [{"mesh": gen.random_mesh(rng, 40), "fmt": FORMATS[int(rng.integers(0, 3))], "edges": bool(rng.random() < 0.6)} for _ in range(int(rng.integers(0, 4)))],
               "same_grid_before": [FORMATS[int(j)] for j in rng.integers(0, 3, size=int(rng.integers(0, 3)))] if rng.random() < 0.5 else [],
               "dseed": int(rng.integers(0, 10**6))}


def _workdir():
    p = os.path.join(env.WORK, "c07_%d" % os.getpid())
    os.makedirs(p, exist_ok=True)
    return p


def _from_file(ds, rng, **kw):
    """the source dataset written to a NetCDF file and opened from its path: the grid's variables then carry the file's storage
    encodings (types, fill values, chunking)"""
    U = ux.ux()
    path = os.path.join(_workdir(), "src_%d.nc" % int(rng.integers(0, 10**9)))
    try:
        try:
            ds.to_netcdf(path)
        except Exception:  # the writer (xarray), not the library: in memory then
            return U.open_grid(ds, **kw)
        g = U.open_grid(path, **kw)
        g.face_node_connectivity.values  # (loaded before the file goes away)
        g.node_lon.values, g.node_lat.values
        return g
    finally:
        try:
            os.remove(path)
        except OSError:
            pass


def build_grid(source, m, rng):
    U = ux.ux()
    if source == "ugrid_file":
        ds, info = dialects.ugrid_dataset(m, rng, force={"transposed": False})
        return _from_file(ds, rng), info["expect"]
    if source == "mpas_file":
        ds, info = dialects.mpas_dataset(m, rng)
        return _from_file(ds, rng), info["expect"]
    if source == "exodus_file":
        ds, info = dialects.exodus_dataset(m, rng)
        return _from_file(ds, rng), info["expect"]
    if source == "topology":
        return ux.grid_from_mesh(m), m
    if source == "ugrid":
        ds, info = dialects.ugrid_dataset(m, rng, force={"transposed": False})
        return U.open_grid(ds), info["expect"]
    if source == "mpas":
        ds, info = dialects.mpas_dataset(m, rng)
        return U.open_grid(ds), info["expect"]
    if source == "exodus":
        ds, info = dialects.exodus_dataset(m, rng)
        return U.open_grid(ds), info["expect"]
    if source == "face_vertices_xyz":
        src, info = dialects.face_vertices(m, rng, force={"latlon": False, "container": "ndarray"})
        return U.Grid.from_face_vertices(src, latlon=False), info["expect"]
    raise ValueError(source)


def touch(g, name):
    if name == "ball_tree":
        g.get_ball_tree(coordinates="face centers")
    elif name == "kd_tree":
        g.get_kd_tree(coordinates="nodes")
    else:
        getattr(g, name)


API_NAME = {"ugrid": "UGRID", "exodus": "Exodus", "scrip": "SCRIP"}


def encode(g, fmt, api):
    return g.encode_as(API_NAME[fmt]) if api == "encode_as" else g.to_xarray(fmt)


def PTOL(m):
    """Position tolerance of the round trip: a source with single-precision coordinates is re-encoded in single precision."""
    return 1e-6 if m.desc.get("float32") else 1e-9


def faces_multiset_match(grid, m, tol=1e-9):
    rings = ux.grid_face_rings(grid)
    if len(rings) != m.n_face:
        return False, {"why": "n_face", "got": len(rings), "want": m.n_face}
    xyz = ux.grid_node_xyz(grid)
    want = {}
    for i in range(m.n_face):
        P = m.ring_pos(i)
        key = (len(P),) + tuple(np.round(P.mean(axis=0), 6))
        want.setdefault(key, []).append(P)
    for r in rings:
        if any(v < 0 or v >= len(xyz) for v in r):
            return False, {"why": "index out of range", "row": r}
        P = xyz[r]
        c = P.mean(axis=0)
        found = False
        for key, lst in want.items():
            if key[0] == len(P) and np.max(np.abs(np.array(key[1:]) - c)) < 2e-6:
                for j, Q in enumerate(lst):
                    if ref.same_cycle_pos(P, Q, tol=2e-4 if np.any(np.abs(Q[:, 2]) > 1 - 1e-7) else tol):
                        lst.pop(j)
                        found = True
                        break
            if found:
                break
        if not found:
            return False, {"why": "face without counterpart", "ring": P.tolist()}
    return True, None


def ugrid_self_consistent(ds):
    probs = []
    topo = [v for v in ds.variables if ds[v].attrs.get("cf_role") == "mesh_topology"]
    if len(topo) != 1:
        return ["%d mesh_topology variables" % len(topo)]
    at = ds[topo[0]].attrs
    for k, v in at.items():
        if k.endswith("_coordinates"):
            for name in str(v).split():
                if name not in ds.variables:
                    probs.append("%s names missing variable %s" % (k, name))
        elif k.endswith("_connectivity"):
            if str(v) not in ds.variables:
                probs.append("%s names missing variable %s" % (k, v))
        elif k in ("node_dimension", "face_dimension", "edge_dimension"):
            if str(v) not in ds.dims:
                probs.append("%s names missing dimension %s" % (k, v))
    return probs


def run_case(ctx, case):
    U = ux.ux()
    rng = np.random.default_rng(case["dseed"])
    # earlier encodings of other grids in this process
    for p in case["prefix"]:
        try:
            og = ux.grid_from_mesh(gen.build(p["mesh"]))
            if p["edges"]:
                og.edge_node_connectivity
                og.face_edge_connectivity
            encode(og, p["fmt"], "to_xarray")
        except Exception:
            ctx.observe("prefix_encoding_raised")
    m0 = gen.build(case["mesh"])
    try:
        g, m = build_grid(case["source"], m0, rng)
    except Exception as e:
        ctx.observe("source_open_failed:" + core.exc_sig(e))
        return
    mixed = len({len(f) for f in m.faces}) > 1
    if case["fmt"] == "exodus" and max(len(f) for f in m.faces) > 8:
        ctx.observe("skipped_exodus_face_with_more_than_8_corners")  # no Exodus element type; outside 3..8-gons
        return
    sig = {"fmt": case["fmt"], "mixed": mixed, "api": case["api"], "source": case["source"], "xyz_only_source": case["source"] in ("face_vertices_xyz",)}
    done = []
    for name in case["materialise"]:
        try:
            touch(g, name)
            done.append(name)
        except Exception as e:
            ctx.observe("materialise_raised:%s:%s" % (name, core.exc_sig(e)))
    # earlier encodings of this same grid object in other (or the same) formats: exporting must not alter the grid
    before = []
    for f0 in case.get("same_grid_before", []):
        if f0 == "exodus" and max(len(f) for f in m.faces) > 8:
            continue
        try:
            encode(g, f0, "to_xarray")
            before.append(f0)
        except Exception as e:
            ctx.check("no_exception", False, dict(sig, stage="earlier_encode_same_grid", earlier=f0, exc=core.exc_sig(e)), {"exc": repr(e)[:300], "mesh": case["mesh"]})
    sigm = dict(sig, materialised=bool(done), prefix=bool(case["prefix"]), same_grid_before="+".join(before))
    try:
        ds = encode(g, case["fmt"], case["api"])
    except Exception as e:
        ctx.check("no_exception", False, dict(sigm, stage="encode", exc=core.exc_sig(e)), {"exc": repr(e)[:300], "materialised": done, "mesh": case["mesh"]})
        return
    ctx.check("no_exception", True)
    if case["fmt"] == "ugrid":
        probs = ugrid_self_consistent(ds)
        ctx.check("self_consistent", not probs, dict(sigm, problem=(probs[0].split(" names ")[0] if probs else "")), {"problems": probs, "materialised": done, "prefix": [[p["fmt"], p["edges"]] for p in case["prefix"]]})
    # writable
    path = os.path.join(_workdir(), "enc_%d.nc" % int(rng.integers(0, 10**9)))
    wrote = False
    try:
        ds.to_netcdf(path)
        wrote = True
        ctx.check("writable", True)
    except Exception as e:
        ctx.check("writable", False, dict(sigm, exc=type(e).__name__), {"exc": repr(e)[:400], "materialised": done})
    # re-open
    try:
        if case["via_file"] and wrote:
            g2 = U.open_grid(path)
        else:
            g2 = U.open_grid(ds)
        if case["fmt"] == "exodus":
            ok, why = faces_multiset_match(g2, m, tol=PTOL(m))
        else:
            ok, why = ux.faces_match(g2, m, tol=PTOL(m))
        ctx.check("roundtrip_faces", ok, dict(sigm, why=(why or {}).get("why", ""), via_file=bool(case["via_file"] and wrote)), {"why": why, "materialised": done, "mesh": case["mesh"]})
        # second generation: the grid that was read back is a grid like any other - encode IT (any format), write, read
        if ok:
            fmt2 = FORMATS[int(rng.integers(0, 3))]
            if not (fmt2 == "exodus" and max(len(f) for f in m.faces) > 8):
                sig2 = {"fmt": fmt2, "mixed": mixed, "generation": 2, "first_fmt": case["fmt"], "first_via_file": bool(case["via_file"] and wrote)}
                path2 = os.path.join(_workdir(), "enc2_%d.nc" % int(rng.integers(0, 10**9)))
                try:
                    ds2 = encode(g2, fmt2, "to_xarray")
                    try:
                        ds2.to_netcdf(path2)
                        ctx.check("writable", True)
                        g3 = U.open_grid(path2 if rng.random() < 0.5 else ds2)
                        if "exodus" in (fmt2, case["fmt"]):
                            ok3, why3 = faces_multiset_match(g3, m, tol=PTOL(m))
                        else:
                            ok3, why3 = ux.faces_match(g3, m, tol=PTOL(m))
                        ctx.check("roundtrip_faces", ok3, dict(sig2, why=(why3 or {}).get("why", "")), {"why": why3, "mesh": case["mesh"]})
                    except Exception as e:
                        ctx.check("writable", False, dict(sig2, exc=type(e).__name__), {"exc": repr(e)[:400], "mesh": case["mesh"]})
                    ctx.observe("second_generation_" + case["fmt"] + ">" + fmt2)
                except Exception as e:
                    ctx.check("no_exception", False, dict(sig2, stage="encode_generation_2", exc=core.exc_sig(e)), {"exc": repr(e)[:300], "mesh": case["mesh"]})
                finally:
                    try:
                        os.remove(path2)
                    except OSError:
                        pass
    except Exception as e:
        ctx.check("no_exception", False, dict(sigm, stage="reopen", exc=core.exc_sig(e)), {"exc": repr(e)[:300], "materialised": done, "mesh": case["mesh"]})
    finally:
        try:
            os.remove(path)
        except OSError:
            pass
    if mixed or done or case["prefix"] or before:
        ctx.mark_nontrivial()
    if before:
        ctx.observe("with_earlier_encodings_of_same_grid")
        ctx.note_set("same_grid_format_sequences", "+".join(before) + ">" + case["fmt"])
    ctx.observe("fmt_" + case["fmt"])
    ctx.observe("source_" + case["source"])
    if mixed:
        ctx.observe("mixed_sizes")
    if case["prefix"]:
        ctx.observe("with_prefix")
    for name in done:
        ctx.observe("materialised_" + name)
    ctx.sample({"mesh": case["mesh"], "fmt": case["fmt"], "api": case["api"], "source": case["source"], "materialise": case["materialise"], "prefix": [[p["fmt"], p["edges"]] for p in case["prefix"]], "via_file": case["via_file"], "same_grid_before": before})
