"""C11 - neighbour queries agree with brute-force search under the tree's metric."""

import itertools
import math

import numpy as np

from .. import gen, ref, ux, core, nn

PROPERTY = "C11"
SHARDS = {"quick": 6, "thorough": 16}
RULE = (
    "cases: request histories on one grid - every ordered pair of tree requests from {ball, kd} x {nodes, face centers, edge "
    "centers} x {spherical, cartesian} x {reconstruct False, True} x the metrics each tree type admits (haversine; euclidean/minkowski, chebyshev, manhattan): 60 requests, 60 x 60 ordered pairs (a seeded seventh in quick, all in thorough) "
    "plus random histories of length 1..4; after every request the returned tree's attributes are compared with the request "
    "and 8 queries are run against it: k-nearest (k in {1, 2, n/2, n}, with and without distances, single and batched points, "
    "degrees and radians) and radius queries (r = 0, small, large; indices, distances, counts). Query points: random, exactly "
    "at an element, either side of lon=+-180, at and beside the poles. Grids: all mesh families incl. regular lat-lon grids "
    "with nodes exactly at the poles and on the antimeridian. Oracle: brute force under the requested metric (haversine / "
    "chord / planar lat-lon); ties compared as distance multisets. Non-trivial = history of length >= 2 with a parameter "
    "change, or a query point within 5 degrees of a pole / the antimeridian."
)
ASSUMPTIONS = [
    "element positions: model nodes, normalised corner means for face and edge centres (decided by C04); for the planar metric the "
    "(lat, lon) of the elements are read from a fresh twin grid so that the +-180 convention is the library's own",
    "documented units: ball-tree radius r in degrees; spherical k-d tree radius queries only with in_radians=True (r in tree units)",
    "haversine distances above 3 rad compared at 1e-6 (2*asin(sqrt(h)) is ill conditioned at the antipode), everything else at 1e-9",
]
MIN_EVAL = {"quick": {"tree_reflects_request": 500, "knn": 1500, "radius": 900},
            "thorough": {"tree_reflects_request": 6000, "knn": 18000, "radius": 10000}}

KINDS = ["nodes", "face centers", "edge centers"]
LIB_METRICS = {("ball", "spherical"): ["haversine"], ("ball", "cartesian"): ["euclidean", "chebyshev", "manhattan"],
               ("kd", "spherical"): ["minkowski", "chebyshev", "manhattan"], ("kd", "cartesian"): ["minkowski", "chebyshev", "manhattan"]}
REQS = [(t, k, s, r, lm) for t in ("ball", "kd") for k in KINDS for s in ("spherical", "cartesian") for r in (False, True) for lm in LIB_METRICS[(t, s)]]


def metric_of(tree_type, system, lib_metric_name):
    """oracle metric for a requested (tree, system, library metric name)"""
    fam = {"euclidean": "", "minkowski": "", "haversine": "", "chebyshev": "_chebyshev", "manhattan": "_manhattan"}[lib_metric_name]
    if system == "cartesian":
        return "chord" if not fam else "xyz" + fam
    if tree_type == "ball":
        return "haversine"
    return "planar" + fam


def cases(tier, seed):
    rng = np.random.default_rng([seed, 1111])
    pairs = list(itertools.product(range(len(REQS)), repeat=2))
    if tier == "quick":
        idx = rng.permutation(len(pairs))[: len(pairs) // 7]
        pairs = [pairs[i] for i in sorted(idx)]
    for a, b in pairs:
        yield {"mesh": gen.random_mesh(rng, 40), "history": [a, b], "qseed": int(rng.integers(0, 10**6))}
    # every order of the three element kinds on one cached tree (no reconstruction): the kinds are switched through the tree's setter
    for t in ("ball", "kd"):
        for sysm in ("spherical", "cartesian"):
            lm = LIB_METRICS[(t, sysm)][0]
            for order in itertools.permutations(KINDS):
                yield {"mesh": gen.random_mesh(rng, 40), "history": [REQS.index((t, k, sysm, False, lm)) for k in order] + [REQS.index((t, order[0], sysm, False, lm))], "qseed": int(rng.integers(0, 10**6))}
    # node coordinates given as whole degrees in an integer array (regular lat-lon grids are often written that way)
    for i in range(12 if tier == "quick" else 400):
        d = {"family": "latlon_global", "nlon": int(rng.choice([4, 6, 8, 12])), "nlat": int(rng.choice([2, 3, 6])), "ops": [], "integer_degrees": True}
        yield {"mesh": d, "history": [int(x) for x in rng.integers(0, len(REQS), size=int(rng.integers(1, 4)))], "qseed": int(rng.integers(0, 10**6))}
    n = 90 if tier == "quick" else 10000
    for i in range(n):
        L = int(rng.integers(1, 5))
        yield {"mesh": gen.random_mesh(rng, 60 if tier == "quick" else 250, families=gen.ALL_FAMILIES), "history": [int(x) for x in rng.integers(0, len(REQS), size=L)], "qseed": int(rng.integers(0, 10**6))}


def elements(m, g, twin, kind):
    """(xyz model positions, lonlat degrees as the library reports them on a fresh grid)"""
    if kind == "nodes":
        P = m.xyz
        ll = np.stack([twin.node_lon.values, twin.node_lat.values], axis=1)
    elif kind == "face centers":
        P = np.array([ref.unit(m.ring_pos(i).mean(axis=0)) for i in range(m.n_face)])
        ll = np.stack([twin.face_lon.values, twin.face_lat.values], axis=1)
    else:
        en = np.asarray(twin.edge_node_connectivity.values)
        P = ref.unit(m.xyz[en[:, 0]] + m.xyz[en[:, 1]])
        ll = np.stack([twin.edge_lon.values, twin.edge_lat.values], axis=1)
    return P, np.asarray(ll, dtype=float)


def query_points(rng, P, nq):
    """nq unit vectors: random / at an element / near the antimeridian / near or at a pole."""
    out, special = [], False
    for _ in range(nq):
        c = int(rng.integers(0, 6))
        if c == 0:
            q = P[int(rng.integers(0, len(P)))].copy()
        elif c == 1:
            lon = 180.0 - float(rng.uniform(0, 0.5))
            q = ref.lonlat_to_xyz(lon if rng.random() < 0.5 else -lon, float(rng.uniform(-80, 80)))
            special = True
        elif c == 2:
            lat = float(rng.choice([90.0, -90.0, 89.99, -89.99, 89.0, -89.0]))
            q = ref.lonlat_to_xyz(float(rng.uniform(-180, 180)), lat)
            special = True
        elif c == 3:
            q = ref.unit(P[int(rng.integers(0, len(P)))] + 1e-3 * rng.normal(size=3))
        else:
            q = ref.unit(rng.normal(size=3))
        out.append(q)
    return np.array(out), special


def _per_query(res, nq, j):
    """Result of query j from a query_radius return value (single queries come back un-nested)."""
    if nq == 1:
        if isinstance(res, (list, tuple)) and len(res) == 1 and np.ndim(res[0]) >= 1:
            res = res[0]
        return np.asarray(res).reshape(-1)
    return np.asarray(res[j]).reshape(-1)


def run_case(ctx, case):
    U = ux.ux()
    m = gen.build({k: v for k, v in case["mesh"].items() if k != "integer_degrees"})
    if case["mesh"].get("integer_degrees"):
        lon_i, lat_i = (np.rint(a).astype(np.int64) for a in m.lonlat())
        if np.allclose(lon_i, m.lonlat()[0], atol=1e-9) and np.allclose(lat_i, m.lonlat()[1], atol=1e-9):
            mk = lambda: U.Grid.from_topology(lon_i.copy(), lat_i.copy(), m.padded(), fill_value=ux.INT_FILL)  # noqa: E731
            m = gen.Mesh(ref.lonlat_to_xyz(lon_i.astype(float), lat_i.astype(float)), m.faces, m.desc, m.closed)
            g, twin = mk(), mk()
            ctx.observe("integer_typed_node_coordinates")
        else:
            g, twin = ux.grid_from_mesh(m), ux.grid_from_mesh(m)
    else:
        g = ux.grid_from_mesh(m)
        twin = ux.grid_from_mesh(m)
    rng = np.random.default_rng(case["qseed"])
    hist = [REQS[i] for i in case["history"]]
    changed = any((hist[i][:3], hist[i][4]) != (hist[i - 1][:3], hist[i - 1][4]) for i in range(1, len(hist)))
    special_any = False
    done = []
    for step, (ttype, kind, system, recon, lmetric) in enumerate(hist):
        metric = metric_of(ttype, system, lmetric)
        prev = done[-1] if done else None
        sig0 = {"tree": ttype, "kind": kind, "system": system, "reconstruct": recon, "step": min(step, 2), "lib_metric": lmetric,
                "prev_same_type_metric": None if prev is None else next((p[3] for p in reversed(done) if p[0] == ttype), None),
                "prev_same_type_system": None if prev is None else next((p[2] for p in reversed(done) if p[0] == ttype), None),
                "prev_same_type_kind": None if prev is None else next((p[1] for p in reversed(done) if p[0] == ttype), None)}
        try:
            if ttype == "ball":
                tree = g.get_ball_tree(coordinates=kind, coordinate_system=system, distance_metric=lmetric, reconstruct=recon)
            else:
                tree = g.get_kd_tree(coordinates=kind, coordinate_system=system, distance_metric=lmetric, reconstruct=recon)
        except Exception as e:
            ctx.check("no_exception", False, dict(sig0, stage="get_tree", exc=core.exc_sig(e)), {"exc": repr(e), "history": hist[: step + 1], "mesh": case["mesh"]})
            return
        done.append((ttype, kind, system, lmetric))
        ok = (getattr(tree, "coordinates", None) == kind and getattr(tree, "coordinate_system", None) == system
              and getattr(tree, "distance_metric", None) == lmetric)
        ctx.check("tree_reflects_request", ok, sig0,
                  {"got": [getattr(tree, "coordinates", None), getattr(tree, "coordinate_system", None), getattr(tree, "distance_metric", None)],
                   "want": [kind, system, lmetric], "history": hist[: step + 1], "mesh": case["mesh"]})
        P, LL = elements(m, g, twin, kind)
        if system == "spherical":
            # trees on spherical coordinates hold the positions the grid reports as lon/lat: inside the pole-snapping band
            # (|z| > 1 - 1e-8) those are the pole itself (C04 decides that they are the right points otherwise)
            P = ref.lonlat_to_xyz(LL[:, 0], LL[:, 1])
        ne = len(P)
        scale_deg = 180.0 / math.pi
        for qi in range(8):
            nq = 1 if qi % 2 == 0 else int(rng.integers(2, 6))
            Q, special = query_points(rng, P, nq)
            special_any = special_any or special
            qlon, qlat = ref.xyz_to_lonlat(Q)
            in_rad = bool(rng.random() < 0.4)
            if system == "cartesian":
                coords = Q if nq > 1 else (Q[0] if rng.random() < 0.5 else Q)
                D = nn.distances(metric, P, LL, q_xyz=Q)
                scale = 1.0
            elif ttype == "ball":
                c = np.stack([qlon, qlat], axis=1)
                coords = np.deg2rad(c) if in_rad else c
                D = nn.distances("haversine", P, LL, q_xyz=Q)
                scale = 1.0 if in_rad else scale_deg
            else:
                c = np.stack([qlat, qlon], axis=1)  # k-d trees on spherical coordinates take (lat, lon)
                coords = np.deg2rad(c) if in_rad else c
                D = nn.distances(metric, P, LL, q_lonlat_deg=np.stack([qlon, qlat], axis=1))
                scale = 1.0 if in_rad else scale_deg
            if system != "cartesian" and nq == 1 and rng.random() < 0.5:
                coords = coords[0]
            sig = dict(sig0, metric=metric, in_radians=in_rad if system == "spherical" else None, batched=nq > 1)
            det = {"history": hist[: step + 1], "mesh": case["mesh"], "coords": np.asarray(coords).tolist()}
            if qi < 5:
                k = min(ne, int([1, 2, max(1, ne // 2), ne, 3][qi]))
                with_d = bool(rng.random() < 0.7)
                try:
                    if with_d:
                        d, ind = tree.query(coords, k=k, in_radians=in_rad, return_distance=True)
                    else:
                        d, ind = None, tree.query(coords, k=k, in_radians=in_rad, return_distance=False)
                except Exception as e:
                    ctx.check("no_exception", False, dict(sig, stage="query", exc=core.exc_sig(e)), dict(det, exc=repr(e), k=k))
                    continue
                ind = np.asarray(ind).reshape(nq, -1) if np.size(ind) == nq * k else None
                dd = None if d is None else (np.asarray(d, dtype=float).reshape(nq, -1) if np.size(d) == nq * k else "bad")
                if ind is None or isinstance(dd, str):
                    ctx.check("knn", False, dict(sig, why="shape"), dict(det, k=k, got_shape=[list(np.shape(ind)), None if d is None else list(np.shape(d))]))
                    continue
                for j in range(nq):
                    okj, why = nn.knn_ok(metric, D[j], ind[j], None if dd is None else dd[j], k, scale)
                    ctx.check("knn", okj, dict(sig, with_distance=with_d, why=(why or "").split(":")[0][:40]), dict(det, k=k, why=why, query=j))
                # the caller's array of query points is the caller's: asking again with the very same array object (a loop over
                # k, or k-NN followed by a radius query) gives the answer for the same points
                if isinstance(coords, np.ndarray) and qi % 2 == 1:
                    try:
                        ind2 = tree.query(coords, k=k, in_radians=in_rad, return_distance=False)
                        ind2 = np.asarray(ind2).reshape(nq, -1) if np.size(ind2) == nq * k else None
                        ok2 = ind2 is not None and all(nn.knn_ok(metric, D[j], ind2[j], None, k, scale)[0] for j in range(nq))
                        ctx.check("knn", ok2, dict(sig, with_distance=False, why="", reuse="same_query_array_again"), dict(det, k=k))
                        ctx.check("knn", bool(np.array_equal(np.asarray(det["coords"]), coords)), dict(sig, why="query array modified", reuse="same_query_array_again"), dict(det, now=np.asarray(coords).tolist()))
                    except Exception as e:
                        ctx.check("no_exception", False, dict(sig, stage="query_again", exc=core.exc_sig(e)), dict(det, exc=repr(e), k=k))
            else:
                if system == "spherical" and ttype == "kd":
                    in_rad = True
                    coords = np.deg2rad(np.stack([qlat, qlon], axis=1))
                    scale = 1.0
                srt = np.sort(D, axis=1)
                choice = qi - 5
                base = float(srt[0, min(ne - 1, 2)])
                r_metric = [0.0, base * 1.0000001 + 1e-7, float(np.median(D))][choice]
                if system == "spherical" and ttype == "ball":
                    r_arg = math.degrees(r_metric)  # documented: r in degrees
                    r_metric = math.radians(r_arg)
                else:
                    r_arg = r_metric
                mode = ["ind", "dist", "count"][int(rng.integers(0, 3))]
                try:
                    if mode == "ind":
                        res_i, res_d, res_c = tree.query_radius(coords, r=r_arg, in_radians=in_rad), None, None
                    elif mode == "dist":
                        res_d, res_i = tree.query_radius(coords, r=r_arg, in_radians=in_rad, return_distance=True)
                        res_c = None
                    else:
                        res_c = tree.query_radius(coords, r=r_arg, in_radians=in_rad, count_only=True)
                        res_i = res_d = None
                except Exception as e:
                    ctx.check("no_exception", False, dict(sig, stage="query_radius", mode=mode, exc=core.exc_sig(e)), dict(det, exc=repr(e), r=r_arg))
                    continue
                sigr = dict(sig, in_radians=in_rad if system == "spherical" else None)
                for j in range(nq):
                    try:
                        if mode == "count":
                            okj, why = nn.radius_ok(metric, D[j], r_metric, None, count=np.asarray(res_c).reshape(-1)[j])
                        else:
                            ij = _per_query(res_i, nq, j)
                            dj = None if res_d is None else _per_query(res_d, nq, j)
                            okj, why = nn.radius_ok(metric, D[j], r_metric, ij, dist=dj, scale=scale)
                    except Exception as e:  # result container not in the documented form
                        okj, why = False, "result form: %r" % (e,)
                    ctx.check("radius", okj, dict(sigr, mode=mode, why=(why or "").split(":")[0][:40] if not okj else ""), dict(det, r=r_arg, why=why, query=j))
        ctx.observe("requests")
        ctx.observe("request_%s_%s" % (ttype, system))
        ctx.note_set("ordered_request_pairs", "%s>%s" % (done[-2] if len(done) > 1 else None, done[-1]))
    if (len(hist) >= 2 and changed) or special_any:
        ctx.mark_nontrivial()
    ctx.observe("histories_len_%d" % len(hist))
    ctx.sample({"mesh": case["mesh"], "history": [list(h) for h in hist], "n_node": m.n_node, "n_face": m.n_face})
