"""C04 - spherical and Cartesian coordinates denote the same points."""

import itertools
import math

import numpy as np

from .. import gen, ref, ux, core

PROPERTY = "C04"
SHARDS = {"quick": 6, "thorough": 16}
RULE = (
    "cases: provenance matrix - nodes {lon/lat only, xyz only (face-vertex constructor), both, both with a "
    "non-unit radius, both with integer-typed Cartesian coordinates, xyz only in float32 (unit sphere / kilometres) or int32 metres, lon/lat from a dask-backed UGRID dataset} x face centres {absent, lon/lat, xyz, both} x edge centres {absent, lon/lat, xyz, both} "
    "(supplied centres are deliberately offset from the corner mean so supplied and derived values cannot be "
    "confused) x longitudes given in 0..360 or -180..180 x meshes with nodes on a pole / the antimeridian / the "
    "prime meridian x first-access order of the six coordinate groups (720 orders; components of a group read lon,lat / x,y,z or reversed; ranges checked at the first read and again at the end; sampled in quick, thorough "
    "walks all 720 on small meshes). Oracle: independent lon/lat <-> unit-vector conversion. Non-trivial = "
    "provenance other than lon/lat-nodes-only, or a node within 1 degree of a pole / the antimeridian."
)
ASSUMPTIONS = ["for float32 Cartesian sources 'to rounding' means single-precision rounding (1e-6 rad for derived centres, 3e-7 for unit length) - the grid keeps the source's dtype", "positions with |z| > 1-1e-8 (within 1.42e-4 rad of a pole) may be reported at the pole (the statement's pole-snapping tolerance): they, and centres derived from them, are judged at 1.5e-4 rad",
               "supplied edge centres come together with the edge_node_connectivity that defines the edge order"]
GROUPS = ["node_ll", "node_xyz", "edge_ll", "edge_xyz", "face_ll", "face_xyz"]
ORDERS = list(itertools.permutations(range(6)))
MIN_EVAL = {"quick": {"same_point": 800, "lon_lat_range": 800, "derived_unit_length": 300, "derived_centre_is_corner_mean": 200, "normalize_keeps_direction": 600},
            "thorough": {"same_point": 15000, "lon_lat_range": 15000, "derived_unit_length": 5000, "derived_centre_is_corner_mean": 3500, "normalize_keeps_direction": 10000}}
NODE_PROV = ["ll", "xyz", "both", "both_radius", "both_int", "xyz_f32", "xyz_f32_km", "xyz_i32_m", "ugrid_dask", "xyz_nearly_unit", "mpas_twice"]
CEN_PROV = ["none", "ll", "xyz", "both"]


def cases(tier, seed):
    rng = np.random.default_rng([seed, 404])
    n = 450 if tier == "quick" else 45000
    for i in range(n):
        d = gen.random_mesh(rng, 60 if tier == "quick" else 250, families=gen.ALL_FAMILIES)
        yield {"mesh": d, "node": NODE_PROV[int(rng.integers(0, len(NODE_PROV)))], "face": CEN_PROV[int(rng.integers(0, 4))],
               "edge": CEN_PROV[int(rng.integers(0, 4))], "lon360": bool(rng.random() < 0.5),
               "order": int(rng.integers(0, 720)), "cseed": int(rng.integers(0, 10**6)), "cradius": bool(rng.random() < 0.3), "rev": bool(rng.random() < 0.5)}
    if tier == "thorough":
        small = {"family": "polyhedron", "name": "prism3", "ops": [["snap", ["node_npole", 0]]]}
        for o in range(720):
            yield {"mesh": small, "node": NODE_PROV[o % 4], "face": CEN_PROV[(o // 4) % 4], "edge": CEN_PROV[(o // 16) % 4],
                   "lon360": bool(o % 2), "order": o, "cseed": o, "rev": bool((o // 2) % 2)}


def _lon(lon, lon360):
    lon = np.array(lon, dtype=float)
    return np.mod(lon, 360.0) if lon360 else lon


def build(case, m):
    """Returns (grid, supplied) where supplied names which groups came from the source."""
    U = ux.ux()
    rng = np.random.default_rng(case["cseed"])
    lon, lat = m.lonlat()
    lon360 = case["lon360"]
    supplied = set()
    kw = {}
    radius = 6371.0e3 if case["node"] == "both_radius" else 1.0
    cradius = 6371.0e3 if case.get("cradius") else radius
    if case["node"] == "ugrid_dask":
        # a UGRID dataset whose variables are dask arrays (what open_grid(path, chunks=...) hands to the reader)
        import xarray as xr

        ds = xr.Dataset()
        ds["mesh"] = xr.DataArray(0, attrs={"cf_role": "mesh_topology", "topology_dimension": 2, "node_coordinates": "nlon nlat", "face_node_connectivity": "fnc"})
        ds["nlon"] = xr.DataArray(_lon(lon, lon360), dims=["nn"])
        ds["nlat"] = xr.DataArray(np.array(lat), dims=["nn"])
        ds["fnc"] = xr.DataArray(m.padded(), dims=["nf", "nmax"], attrs={"cf_role": "face_node_connectivity", "start_index": 0, "_FillValue": ux.INT_FILL})
        if case["face"] in ("ll", "both"):
            C = ref.unit(np.array([ref.unit(m.ring_pos(i).mean(axis=0)) for i in range(m.n_face)]) + 0.01 * rng.normal(size=(m.n_face, 3)))
            cl, ca = ref.xyz_to_lonlat(C)
            ds["flon"] = xr.DataArray(_lon(cl, lon360), dims=["nf"])
            ds["flat"] = xr.DataArray(np.array(ca), dims=["nf"])
            ds["mesh"].attrs["face_coordinates"] = "flon flat"
            supplied.add("face_ll")
        g = U.open_grid(ds.chunk({"nn": max(1, m.n_node // 2), "nf": max(1, m.n_face // 3)}))
        supplied.add("node_ll")
        return g, supplied
    if case["node"] in ("xyz_f32", "xyz_f32_km", "xyz_i32_m") and len({len(f) for f in m.faces}) == 1:
        # Cartesian corner arrays in a narrow type: single precision on the unit sphere / in kilometres, 32-bit integers in metres
        fv = np.array([m.xyz[f] for f in m.faces])
        fv = {"xyz_f32": fv.astype(np.float32), "xyz_f32_km": (fv * 6371.0).astype(np.float32), "xyz_i32_m": np.rint(fv * 6371000.0).astype(np.int32)}[case["node"]]
        return U.Grid.from_face_vertices(fv, latlon=False), {"node_xyz"}
    if case["node"] == "mpas_twice" and ref.is_manifold(m.faces):
        # one in-memory MPAS dataset opened twice (primal, then primal or dual): the SECOND grid is judged
        from .. import dialects

        ds, info = dialects.mpas_dataset(m, rng, force={"xyz": bool(rng.random() < 0.5)})
        U.open_grid(ds)
        dual = bool(rng.random() < 0.5)
        g = U.open_grid(ds, use_dual=dual)
        # every group may come from the file: only "same point", ranges and first-read stability are judged for this provenance
        return g, {"node_ll", "node_xyz", "face_ll", "face_xyz", "edge_ll", "edge_xyz"}
    if case["node"] == "xyz_nearly_unit":
        # Cartesian corners whose lengths are almost, not exactly, one (a slightly different radius): whatever is called first,
        # lon/lat and xyz must denote the same directions
        w = max(len(f) for f in m.faces)
        fv = np.full((m.n_face, w, 3), float(ux.INT_FILL))
        scale = 1.0 + float(rng.choice([4e-6, -3e-6, 1e-7]))
        for i, f in enumerate(m.faces):
            fv[i, : len(f)] = m.xyz[f] * scale
        g = U.Grid.from_face_vertices(fv, latlon=False)
        if rng.random() < 0.7:
            g.normalize_cartesian_coordinates()  # before anything was read
        return g, {"node_xyz"}
    if case["node"] in ("xyz", "xyz_f32", "xyz_f32_km", "xyz_i32_m"):
        w = max(len(f) for f in m.faces)
        fv = np.full((m.n_face, w, 3), float(ux.INT_FILL))
        for i, f in enumerate(m.faces):
            fv[i, : len(f)] = m.xyz[f]
        g = U.Grid.from_face_vertices(fv, latlon=False)
        return g, {"node_xyz"}
    supplied.add("node_ll")
    if case["node"] == "both_int":
        # Cartesian coordinates stored as integers (a cube given by its corners (+-1,+-1,+-1) is the everyday example);
        # lon/lat are those of the integer vectors, so both representations denote the same points
        V = np.rint(m.xyz * 1000.0)
        lon, lat = ref.xyz_to_lonlat(V)
        kw.update(node_x=V[:, 0].astype(np.int64), node_y=V[:, 1].astype(np.int64), node_z=V[:, 2].astype(np.int64))
        supplied.add("node_xyz")
    if case["node"] in ("both", "both_radius"):
        kw.update(node_x=m.xyz[:, 0] * radius, node_y=m.xyz[:, 1] * radius, node_z=m.xyz[:, 2] * radius)
        supplied.add("node_xyz")
    # centres: offset from the corner mean by a small random rotation so that they are recognisably 'supplied'
    def jitter(P):
        Q = ref.unit(P + 0.01 * rng.normal(size=P.shape))
        bad = np.abs(Q[:, 2]) > 1 - 1e-6
        Q[bad] = ref.unit(P[bad] + np.array([0.01, 0.01, 0.0]))
        return Q

    if case["face"] != "none":
        C = jitter(np.array([ref.unit(m.ring_pos(i).mean(axis=0)) for i in range(m.n_face)]))
        cl, ca = ref.xyz_to_lonlat(C)
        if case["face"] in ("ll", "both"):
            kw.update(face_lon=_lon(cl, lon360), face_lat=np.array(ca))
            supplied.add("face_ll")
        if case["face"] in ("xyz", "both"):
            kw.update(face_x=C[:, 0] * cradius, face_y=C[:, 1] * cradius, face_z=C[:, 2] * cradius)
            supplied.add("face_xyz")
    if case["edge"] != "none":
        edges = sorted(ref.edge_set(m.faces), key=lambda e: sorted(e))
        perm = rng.permutation(len(edges))
        en = np.array([sorted(edges[i]) for i in perm], dtype=np.intp)
        C = jitter(ref.unit(m.xyz[en[:, 0]] + m.xyz[en[:, 1]]))
        cl, ca = ref.xyz_to_lonlat(C)
        kw["edge_node_connectivity"] = en
        if case["edge"] in ("ll", "both"):
            kw.update(edge_lon=_lon(cl, lon360), edge_lat=np.array(ca))
            supplied.add("edge_ll")
        if case["edge"] in ("xyz", "both"):
            kw.update(edge_x=C[:, 0] * cradius, edge_y=C[:, 1] * cradius, edge_z=C[:, 2] * cradius)
            supplied.add("edge_xyz")
    g = U.Grid.from_topology(_lon(lon, lon360), np.array(lat), m.padded(), fill_value=ux.INT_FILL, **kw)
    return g, supplied


def read_group(g, name, rev=False):
    """Reads one coordinate group through the public properties; copies, so that a later in-place rewrite of the
    stored arrays cannot alter what was observed.  rev: read the components in reverse order (lat before lon, z..x)."""
    kind, rep = name.split("_")
    comps = ["lon", "lat"] if rep == "ll" else ["x", "y", "z"]
    got = {}
    for c in (comps[::-1] if rev else comps):
        got[c] = np.array(getattr(g, kind + "_" + c).values, dtype=float, copy=True)
    return tuple(got[c] for c in comps)


def run_case(ctx, case):
    m = gen.build(case["mesh"])
    try:
        g, supplied = build(case, m)
    except Exception as e:
        ctx.check("no_exception", False, {"stage": "construct", "node": case["node"], "face": case["face"], "edge": case["edge"], "exc": core.exc_sig(e)}, {"exc": repr(e), "case": case})
        return
    xyz_only = case["node"] in ("xyz", "xyz_f32", "xyz_f32_km", "xyz_i32_m", "xyz_nearly_unit") or (case["node"] == "mpas_twice")
    prov = {"node": case["node"], "face": ("face_ll" in supplied and "ll" or "none") if case["node"] == "ugrid_dask" else (case["face"] if not xyz_only else "none"),
            "edge": case["edge"] if not (xyz_only or case["node"] == "ugrid_dask") else "none"}
    first = {}
    order = [GROUPS[k] for k in ORDERS[case["order"]]]
    rev = bool(case.get("rev"))
    for name in order:
        try:
            first[name] = read_group(g, name, rev=rev)
            if name.endswith("_ll"):
                lon, lat = first[name]
                ok = bool(np.all(lon >= -180.0) and np.all(lon <= 180.0) and np.all(lat >= -90.0) and np.all(lat <= 90.0))
                ctx.check("lon_lat_range", ok, {"kind": name.split("_")[0], "prov": prov[name.split("_")[0]], "at": "first_read", "lat_first": rev},
                          {"lon_min": float(lon.min()), "lon_max": float(lon.max()), "order": order, "case": case})
        except Exception as e:
            ctx.check("no_exception", False, {"stage": "read", "group": name, "prov": prov[name.split("_")[0]], "exc": core.exc_sig(e)}, {"exc": repr(e), "order": order, "case": case})
            return
    ctx.check("no_exception", True)
    final = {name: read_group(g, name) for name in GROUPS}
    near_special = False
    for kind in ("node", "edge", "face"):
        lon, lat = final[kind + "_ll"]
        xyz = np.stack(final[kind + "_xyz"], axis=-1)
        sig = {"kind": kind, "prov": prov[kind], "lon360": case["lon360"] if kind + "_ll" in supplied else False}
        # ranges
        ok = bool(np.all(lon >= -180.0) and np.all(lon <= 180.0) and np.all(lat >= -90.0) and np.all(lat <= 90.0))
        ctx.check("lon_lat_range", ok, sig, {"lon_min": float(lon.min()), "lon_max": float(lon.max()), "lat_min": float(lat.min()), "lat_max": float(lat.max()), "order": order, "case": case})
        # same point
        nrm = np.linalg.norm(xyz, axis=-1)
        P = ref.lonlat_to_xyz(lon, lat)
        ang = ref.angle(P, xyz)
        tol = np.where(np.abs(xyz[:, 2] / nrm) > 1 - 1e-8, 2e-4, 1e-9)
        bad = np.argwhere(ang > tol)
        ctx.check("same_point", len(bad) == 0, sig,
                  None if len(bad) == 0 else {"index": int(bad[0][0]), "lonlat": [float(lon[bad[0][0]]), float(lat[bad[0][0]])], "xyz": xyz[bad[0][0]].tolist(), "angle_rad": float(ang[bad[0][0]]), "order": order, "case": case})
        if kind + "_xyz" not in supplied:
            ctx.check("derived_unit_length", bool(np.all(np.abs(nrm - 1.0) < 1e-12)), sig, {"max_dev": float(np.max(np.abs(nrm - 1.0))), "case": case})
        if kind == "node" and (np.any(np.abs(lat) > 89.0) or np.any(np.abs(np.abs(lon) - 180.0) < 1.0)):
            near_special = True
        # history independence of what was read first
        f_ll, f_xyz = first[kind + "_ll"], first[kind + "_xyz"]
        same = all(np.array_equal(a, b) for a, b in zip(f_ll, final[kind + "_ll"])) and all(np.array_equal(a, b) for a, b in zip(f_xyz, final[kind + "_xyz"]))
        ctx.check("first_read_equals_final", same, sig, {"order": order, "case": case})
    # derived centres = normalised mean of the element's corner unit vectors
    nodeP = ref.lonlat_to_xyz(*final["node_ll"])
    # integer-rounded vectors have slightly different lengths: the mean of the supplied vectors is then not the mean of the
    # unit vectors, and the statement speaks of points on one sphere - the clause is not evaluated for that provenance
    equal_radius = case["node"] not in ("both_int", "xyz_i32_m")
    # a single-precision source: what the grid stores and derives in the source's own precision is "to rounding" at 6e-8
    f32 = case["node"] in ("xyz_f32", "xyz_f32_km")
    # (near a pole a single-precision z resolves latitude only to sqrt(2 * 6e-8) = 3.5e-4 rad: band of 2e-3 within 4.5e-3 rad of a pole)
    ctol, utol = (1e-6, 3e-7) if f32 else (1e-9, 1e-12)
    if equal_radius and "face_ll" not in supplied and "face_xyz" not in supplied:
        rings = ux.grid_face_rings(g)
        want = np.array([ref.unit(nodeP[r].mean(axis=0)) for r in rings])
        got = ref.lonlat_to_xyz(*final["face_ll"])
        # centres inside the library's pole-snapping band (|z| > 1 - 1e-8, i.e. within 1.42e-4 rad of a pole) are reported at the pole
        zb, wide = (1 - 1e-5, 2e-3) if f32 else (1 - 1.01e-8, 1.5e-4)
        node_in_band = np.abs(nodeP[:, 2]) > zb  # a corner inside the band may itself be reported at the pole
        cond = np.array([len(r) / max(float(np.linalg.norm(nodeP[r].sum(axis=0))), 1e-12) for r in rings])  # same amplification for very large faces
        band = np.where(np.array([bool(node_in_band[r].any()) for r in rings]), 1.5 * wide, np.where(np.abs(want[:, 2]) > zb, wide, ctol * cond))
        err = float(np.max(ref.angle(want, got) - band))
        ctx.check("derived_centre_is_corner_mean", err < 0, {"kind": "face", "prov": prov["node"]}, {"max_err_over_tolerance_rad": err, "case": case})
    if equal_radius and "edge_ll" not in supplied and "edge_xyz" not in supplied:
        en = np.asarray(g.edge_node_connectivity.values)
        want = ref.unit(nodeP[en[:, 0]] + nodeP[en[:, 1]])
        got = ref.lonlat_to_xyz(*final["edge_ll"])
        zb, wide = (1 - 1e-5, 2e-3) if f32 else (1 - 1.01e-8, 1.5e-4)
        node_in_band = np.abs(nodeP[:, 2]) > zb
        # the midpoint of a long edge is the direction of a short vector (|a + b| = 2 cos(half the arc)): rounding is amplified by 2 / |a + b|
        cond = 2.0 / np.maximum(np.linalg.norm(nodeP[en[:, 0]] + nodeP[en[:, 1]], axis=1), 1e-12)
        # (a corner reported at the pole shifts the expected midpoint by up to half the snap, and the midpoint may be snapped itself: 1.5 x)
        band = np.where(node_in_band[en[:, 0]] | node_in_band[en[:, 1]], 1.5 * wide, np.where(np.abs(want[:, 2]) > zb, wide, ctol * cond))
        err = float(np.max(ref.angle(want, got) - band))
        ctx.check("derived_centre_is_corner_mean", err < 0, {"kind": "edge", "prov": prov["node"]}, {"max_err_over_tolerance_rad": err, "case": case})
    # supplied centres are carried (same positions)
    # normalisation changes lengths only
    before = {k: np.stack(final[k + "_xyz"], axis=-1) for k in ("node", "edge", "face")}
    after = {}
    try:
        g.normalize_cartesian_coordinates()
        after = {k: np.stack(read_group(g, k + "_xyz"), axis=-1) for k in ("node", "edge", "face")}
        for k in ("node", "edge", "face"):
            sig = {"kind": k, "prov": prov[k], "radius": case["node"] in ("both_radius", "both_int", "xyz_f32_km", "xyz_i32_m"), "centre_radius_only": bool(case.get("cradius")) and case["node"] != "both_radius"}
            ang = float(np.max(ref.angle(before[k], after[k])))
            ctx.check("normalize_keeps_direction", ang < utol, sig, {"max_angle": ang, "case": case})
            dev = float(np.max(np.abs(np.linalg.norm(after[k], axis=-1) - 1.0)))
            ctx.check("normalize_gives_unit_length", dev < utol, sig, {"max_dev": dev, "case": case})
    except Exception as e:
        ctx.check("no_exception", False, {"stage": "normalize", "exc": core.exc_sig(e)}, {"exc": repr(e), "case": case})
    # a history: the face centres are constructed again on request (Grid.construct_face_centers, either method) after every
    # group has been read / cached - whatever it stores, the two systems must still denote the same points, stay in range, and
    # the node and edge groups must not move
    method = ["cartesian average", "welzl"][case["cseed"] % 3 == 0 and m.n_face <= 80]
    try:
        import warnings

        with warnings.catch_warnings():
            warnings.simplefilter("ignore")
            g.construct_face_centers(method=method)
        lon, lat = read_group(g, "face_ll", rev=rev)
        xyz = np.stack(read_group(g, "face_xyz"), axis=-1)
        sig = {"kind": "face", "prov": prov["face"], "after": "construct_face_centers", "method": method}
        ok = bool(np.all(lon >= -180.0) and np.all(lon <= 180.0) and np.all(lat >= -90.0) and np.all(lat <= 90.0))
        ctx.check("lon_lat_range", ok, sig, {"lon_min": float(lon.min()), "lon_max": float(lon.max()), "case": case})
        nrm = np.linalg.norm(xyz, axis=-1)
        ang = ref.angle(ref.lonlat_to_xyz(lon, lat), xyz)
        tol = np.where(np.abs(xyz[:, 2] / nrm) > 1 - 1e-8, 2e-4, 1e-6 if f32 else 1e-9)
        bad = np.argwhere(ang > tol)
        ctx.check("same_point", len(bad) == 0, sig,
                  None if len(bad) == 0 else {"index": int(bad[0][0]), "lonlat": [float(lon[bad[0][0]]), float(lat[bad[0][0]])], "xyz": xyz[bad[0][0]].tolist(), "angle_rad": float(ang[bad[0][0]]), "order": order, "case": case})
        for k in ("node", "edge"):
            now = np.stack(read_group(g, k + "_xyz"), axis=-1)
            ctx.check("first_read_equals_final", bool(np.array_equal(now, after[k] if k in after else before[k])), {"kind": k, "prov": prov[k], "after": "construct_face_centers"}, {"case": case})
    except Exception as e:
        ctx.check("no_exception", False, {"stage": "construct_face_centers", "method": method, "exc": core.exc_sig(e)}, {"exc": repr(e), "case": case})
    if case["node"] != "ll" or prov["face"] != "none" or prov["edge"] != "none" or near_special:
        ctx.mark_nontrivial()
    ctx.observe("prov_node_" + case["node"])
    ctx.observe("prov_face_" + prov["face"])
    ctx.observe("prov_edge_" + prov["edge"])
    if near_special:
        ctx.observe("node_near_pole_or_antimeridian")
    ctx.note_set("orders_seen", case["order"])
    ctx.sample({"mesh": case["mesh"], "prov": prov, "lon360": case["lon360"], "order": order})
