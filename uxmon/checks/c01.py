"""C01 - readers decode every supported format to the faces the source describes."""

import os

import warnings

import numpy as np

from .. import gen, ref, ux, core, dialects, env

PROPERTY = "C01"
SHARDS = {"quick": 8, "thorough": 16}
MODES = {"quick": [{"name": "jit", "env": {}}], "thorough": [{"name": "jit+boundscheck", "env": {"NUMBA_BOUNDSCHECK": "1"}}]}
RULE = (
    "plus the repository's 19 sample files (UGRID x7, MPAS primal+dual, SCRIP x2, Exodus x2, ESMF, GEOS-CS, GeoJSON, 3 shapefiles) against an independent decoding of their raw variables; "
    "cases: 12 source kinds (UGRID, MPAS primal, MPAS dual, SCRIP, Exodus, ESMF, GEOS-CS, ICON, GeoJSON, shapefile, "
    "face-vertex arrays, explicit topology) x seeded dialect vectors (start_index 0/1/absent as int or string; fill "
    "-1/-999/999999/int-min/NaN; int32/int64/float64 storage; random variable and dimension names; 0..360 or "
    "-180..180 longitudes; transposed connectivity with face_dimension; 1..n Exodus blocks, coord vs coordx/y/z; "
    "ESMF start_index attribute and decoded NaN padding; MPAS zero / repeated-index padding, optional tables, sphere "
    "radius) x meshes (voronoi, delaunay, merged, polyhedra, cubed sphere, lat-lon patches, partial, snapped onto "
    "poles / antimeridian) x {in-memory dataset (opened twice from the same object), NetCDF file round trip}; Exodus size groups spread over up to 12+ element blocks; MPAS int32/int64 index storage. Oracle: per-face cyclic equality of corner "
    "positions with the model, standard form, coordinate ranges, supplied tables / centres / areas keep their meaning. "
    "File formats written by a third-party encoder are compared with an independent decode of the file. Non-trivial = "
    "mixed face sizes, or a pole/antimeridian placement, or any dialect axis off its sample-file value."
)
ASSUMPTIONS = [
    "sources are well-formed for their format (padding only with a declared fill value in UGRID; MPAS 0 = missing)",
    "shapefile / GeoJSON expectation is what geopandas reads back from the written file",
]
KINDS = ["ugrid", "mpas", "mpas_dual", "scrip", "exodus", "esmf", "geos", "icon", "geojson", "shp", "face_vertices", "topology"]
MIN_EVAL = {"quick": {"faces_equal": 900, "standard_form": 900, "lon_lat_range": 900, "supplied_same_meaning": 400},
            "thorough": {"faces_equal": 6000, "standard_form": 6000, "lon_lat_range": 6000, "supplied_same_meaning": 3000}}


def cases(tier, seed):
    rng = np.random.default_rng([seed, 101])
    n = 1200 if tier == "quick" else 80000
    maxf = 60 if tier == "quick" else 500
    for i in range(n):
        kind = KINDS[i % len(KINDS)]
        if kind == "icon":
            d = gen.random_mesh(rng, maxf, families=["delaunay"], allow_partial=False)
        elif kind == "mpas_dual":
            d = gen.random_mesh(rng, maxf, families=["voronoi", "polyhedron"], allow_partial=False)
            if d["family"] == "polyhedron":
                d["name"] = ["cube", "dodecahedron", "truncated_icosahedron", "prism3", "prism6"][int(rng.integers(0, 5))]
        elif kind == "geos":
            d = {"family": "geos", "ne": int(rng.integers(1, 7))}
        elif kind == "mpas":
            d = gen.random_mesh(rng, maxf, families=["voronoi", "voronoi", "merged", "polyhedron", "cubed_sphere"])
        else:
            d = gen.random_mesh(rng, maxf)
        yield {"kind": kind, "mesh": d, "dseed": int(rng.integers(0, 10**6)), "via_file": bool(rng.random() < 0.4)}
    # the repository's own sample files, decoded independently (uxmon/samplefiles.py)
    from .. import samplefiles

    for i, (fkind, rel, kw) in enumerate(samplefiles.FILES):
        yield {"kind": "sample_file", "format": fkind, "file": rel, "kw": kw, "dseed": i}


def _workdir():
    p = os.path.join(env.WORK, "c01_%d" % os.getpid())
    os.makedirs(p, exist_ok=True)
    return p


def open_source(case, m, rng):
    """Returns (grid, info).  Raises whatever the library raises."""
    U = ux.ux()
    kind = case["kind"]
    path = None
    try:
        if kind in ("geojson", "shp"):
            path, info = dialects.polygon_file(m, rng, _workdir(), kind=kind)
            g = U.Grid.from_file(path)
            return g, info
        if kind == "face_vertices":
            src, info = dialects.face_vertices(m, rng)
            if rng.random() < 0.5:
                g = U.open_grid(src, latlon=info["latlon"])
            else:
                g = U.Grid.from_face_vertices(src, latlon=info["latlon"])
            info["reopen"] = lambda: U.Grid.from_face_vertices(src, latlon=info["latlon"])
            return g, info
        if kind == "topology":
            kw, info = dialects.topology_args(m, rng)
            info["input_copy"] = None
            if info["dial"]["via"] == "open_grid_dict":
                g = U.open_grid(kw)
            else:
                g = U.Grid.from_topology(**kw)
            info["reopen"] = lambda: U.Grid.from_topology(**kw)
            return g, info
        if kind == "ugrid":
            ds, info = dialects.ugrid_dataset(m, rng)
        elif kind == "mpas":
            ds, info = dialects.mpas_dataset(m, rng)
        elif kind == "mpas_dual":
            ds, info = dialects.mpas_dataset(m, rng, dual=True)
        elif kind == "scrip":
            ds, info = dialects.scrip_dataset(m, rng)
        elif kind == "exodus":
            ds, info = dialects.exodus_dataset(m, rng)
        elif kind == "esmf":
            ds, info = dialects.esmf_dataset(m, rng)
        elif kind == "geos":
            ds, info = dialects.geos_dataset(case["mesh"]["ne"], rng)
        elif kind == "icon":
            ds, info = dialects.icon_dataset(m, rng)
        else:
            raise ValueError(kind)
        info["dial"]["via_file"] = False
        if case["via_file"]:
            path = os.path.join(_workdir(), "src_%d.nc" % int(rng.integers(0, 10**9)))
            try:
                ds.to_netcdf(path)
            except Exception as e:  # the writer (xarray), not the library: fall back to in-memory
                info["dial"]["file_write_failed"] = type(e).__name__
                path = None
            if path:
                info["dial"]["via_file"] = True
                g = U.open_grid(path, use_dual=(kind == "mpas_dual"))
                return g, info
        g = U.open_grid(ds, use_dual=(kind == "mpas_dual"))
        info["reopen"] = lambda: U.open_grid(ds, use_dual=(kind == "mpas_dual"))
        return g, info
    finally:
        if path:
            if kind in ("geojson", "shp"):
                dialects.cleanup_polygon_file(path)
            else:
                try:
                    os.remove(path)
                except OSError:
                    pass


SIG_KEYS = {
    "UGRID": ["start_index", "dtype", "padded", "transposed", "fill_declared", "lon", "via_file"],
    "MPAS": ["padding", "dual", "optional_tables", "via_file", "index_dtype"],
    "Scrip": ["padded", "lon", "via_file"],
    "Exodus": ["coord", "via_file"],
    "ESMF": ["start_index", "decoded", "padded", "via_file", "index_dtype"],
    "GEOS-CS": ["lon", "via_file"],
    "ICON": ["closed", "via_file"],
    "GeoJSON": ["padded"],
    "Shapefile": ["padded"],
    "Face Vertices": ["latlon", "container", "padded"],
    "User Defined Topology": ["start_index", "fill", "dtype", "via", "padded", "edge_table"],
}


def sig_of(info, extra=None):
    """Mechanism features of a source: the format plus the dialect axes that select reader branches."""
    fmt = info["format"]
    d = info.get("dial", {})
    s = {"format": fmt}
    for k in SIG_KEYS.get(fmt, []):
        if k in d:
            s[k] = d[k]
    if fmt == "UGRID" and "fill" in d:
        s["fill_kind"] = "nan" if d["fill"] == "nan" else ("intmin" if d["fill"] == "intmin" else "int")
    if fmt == "Exodus" and "n_blocks" in d:
        s["multi_block"] = d["n_blocks"] > 1
        s["ten_or_more_blocks"] = d["n_blocks"] >= 10
    if fmt in ("GeoJSON", "Shapefile") and "n_multipolygons" in d:
        s["has_multipolygon"] = d["n_multipolygons"] > 0
    if "extra_width" in d:
        s["wider_than_widest_face"] = d["extra_width"] > 0
    if extra:
        s.update(extra)
    return s


def supplied_checks(ctx, g, info, sig):
    sup = info["supplied"]
    exp = info["expect"]
    if not sup:
        return
    try:
        if "edge_node" in sup:
            en = np.asarray(g.edge_node_connectivity.values)
            want = [frozenset(e) for e in sup["edge_node"]]
            ok = en.shape == (len(want), 2) and all(frozenset(map(int, r)) == w for r, w in zip(en, want)) and not ux.standard_table(g.edge_node_connectivity, g.n_node)
            ctx.check("supplied_same_meaning", ok, dict(sig, table="edge_node_connectivity"), {"got": en[:4].tolist(), "want": [sorted(w) for w in want[:4]], "form": ux.standard_table(g.edge_node_connectivity, g.n_node)})
        if "face_edge" in sup:
            fe = np.asarray(g.face_edge_connectivity.values)
            rows = ux.rows(fe)
            ok = rows == [list(r) for r in sup["face_edge"]] and not [p for p in ux.standard_table(g.face_edge_connectivity, len(sup["edge_node"])) if "padding" not in p]
            ctx.check("supplied_same_meaning", ok, dict(sig, table="face_edge_connectivity"), {"got": rows[:3], "want": sup["face_edge"][:3], "dtype": str(fe.dtype)})
        if "edge_face" in sup:
            ef = np.asarray(g.edge_face_connectivity.values)
            rows = [sorted(r) for r in ux.rows(ef)]
            ok = rows == [sorted(r) for r in sup["edge_face"]] and ef.dtype == ux.INT_DTYPE
            ctx.check("supplied_same_meaning", ok, dict(sig, table="edge_face_connectivity"), {"got": rows[:4], "want": sup["edge_face"][:4], "dtype": str(ef.dtype)})
        if "node_face" in sup:
            nf = np.asarray(g.node_face_connectivity.values)
            rows = [sorted(r) for r in ux.rows(nf)]
            ok = rows == [sorted(r) for r in sup["node_face"]] and nf.dtype == ux.INT_DTYPE
            ctx.check("supplied_same_meaning", ok, dict(sig, table="node_face_connectivity"), {"got": rows[:4], "want": sup["node_face"][:4], "dtype": str(nf.dtype)})
        if "face_face" in sup:
            ff = np.asarray(g.face_face_connectivity.values)
            rows = [sorted(r) for r in ux.rows(ff)]
            ok = rows == [sorted(r) for r in sup["face_face"]] and ff.dtype == ux.INT_DTYPE
            ctx.check("supplied_same_meaning", ok, dict(sig, table="face_face_connectivity"), {"got": rows[:4], "want": [sorted(r) for r in sup["face_face"][:4]], "dtype": str(ff.dtype)})
        if "face_centres" in sup:
            P = ref.lonlat_to_xyz(np.asarray(g.face_lon.values, float), np.asarray(g.face_lat.values, float))
            err = float(np.max(ref.angle(P, sup["face_centres"]))) if P.shape == sup["face_centres"].shape else np.inf
            lon = np.asarray(g.face_lon.values, float)
            ctx.check("supplied_same_meaning", err < 1e-9 and lon.min() >= -180 and lon.max() <= 180, dict(sig, table="face_lon/face_lat"), {"max_err_rad": err, "lon_range": [float(lon.min()), float(lon.max())]})
        if "edge_centres" in sup:
            P = ref.lonlat_to_xyz(np.asarray(g.edge_lon.values, float), np.asarray(g.edge_lat.values, float))
            err = float(np.max(ref.angle(P, sup["edge_centres"]))) if P.shape == sup["edge_centres"].shape else np.inf
            ctx.check("supplied_same_meaning", err < 1e-9, dict(sig, table="edge_lon/edge_lat"), {"max_err_rad": err})
        if "face_areas" in sup:
            a = np.asarray(g.face_areas.values, float)
            ctx.check("supplied_same_meaning", a.shape == sup["face_areas"].shape and np.allclose(a, sup["face_areas"], rtol=1e-13), dict(sig, table="face_areas"), {"got": a[:3].tolist(), "want": sup["face_areas"][:3].tolist()})
    except Exception as e:
        ctx.check("no_exception", False, dict(sig, stage="supplied", exc=core.exc_sig(e)), {"exc": repr(e)})


def run_sample_file(ctx, case):
    """A real file: the faces uxarray reports against an independent decoding of the raw variables."""
    from .. import samplefiles

    U = ux.ux()
    path = os.path.join(samplefiles.root(), case["file"])
    sig = {"format": "sample_file:" + case["format"], "file": os.path.basename(case["file"])}
    if not os.path.exists(path) or os.path.getsize(path) == 0:
        ctx.observe("sample_file_absent:" + case["file"])
        return
    kw = {k: v for k, v in case["kw"].items() if not k.startswith("_")}
    try:
        exp = samplefiles.decode(case["format"], case["file"])
    except Exception as e:
        ctx.harness_error("sample_file_decoder", e)
        return
    polygons = case["format"] in ("geojson", "shapefile")
    try:
        with warnings.catch_warnings():
            warnings.simplefilter("ignore")
            g = U.Grid.from_file(path) if polygons else U.open_grid(path, **kw)
    except Exception as e:
        ctx.check("no_exception", False, dict(sig, stage="open", exc=core.exc_sig(e)), {"exc": repr(e)[:300]})
        return
    ctx.check("no_exception", True)
    first = [["node_lon", "node_lat"], ["node_lat", "node_lon"], ["face_node_connectivity", "node_lat", "node_lon"]][case["dseed"] % 3]
    for nm in first:
        np.asarray(getattr(g, nm).values)
    try:
        ok, why = ux.faces_match(g, exp, allow_reflection=polygons, tol=case["kw"].get("_tol", 1e-9))
    except Exception as e:
        ok, why = False, {"why": "exception while reading faces", "exc": repr(e)[:300]}
    ctx.check("faces_equal", ok, dict(sig, why=(why or {}).get("why", "")), {"why": why})
    probs = ux.standard_table(g.face_node_connectivity, g.n_node)
    ctx.check("standard_form", not probs, dict(sig, problem=probs[0].split(" ")[0].split("=")[0] if probs else ""), {"problems": probs})
    lon, lat = np.asarray(g.node_lon.values, float), np.asarray(g.node_lat.values, float)
    ctx.check("lon_lat_range", bool(np.all(lon >= -180) and np.all(lon <= 180) and np.all(lat >= -90) and np.all(lat <= 90)), sig,
              {"lon": [float(lon.min()), float(lon.max())], "lat": [float(lat.min()), float(lat.max())]})
    # the same file a second time in the same process
    if ok and not polygons:
        g2 = U.open_grid(path, **kw)
        ok2, why2 = ux.faces_match(g2, exp, tol=case["kw"].get("_tol", 1e-9))
        ctx.check("faces_equal", ok2, dict(sig, why=(why2 or {}).get("why", ""), opened="second_time"), {"why": why2})
    ctx.mark_nontrivial()
    ctx.observe("sample_files")
    ctx.observe("sample_file_format_" + case["format"])
    ctx.sample({"sample_file": case["file"], "format": case["format"], "n_face": exp.n_face, "n_node_in_file": exp.n_node, "face_sizes": sorted({len(f) for f in exp.faces})}, limit=25)


def run_case(ctx, case):
    if case["kind"] == "sample_file":
        return run_sample_file(ctx, case)
    rng = np.random.default_rng(case["dseed"])
    m = None if case["kind"] == "geos" else gen.build(case["mesh"])
    try:
        g, info = open_source(case, m, rng)
    except Exception as e:
        # need the dialect for the signature: re-create it deterministically
        rng2 = np.random.default_rng(case["dseed"])
        info = _info_only(case, m, rng2)
        ctx.check("no_exception", False, sig_of(info, {"stage": "open", "exc": core.exc_sig(e)}), {"exc": repr(e)[:300], "mesh": case["mesh"]})
        _bookkeeping(ctx, case, info)
        return
    sig = sig_of(info)
    ctx.check("no_exception", True)
    exp = info["expect"]
    # the first thing a script reads may be the latitudes, the longitudes or the connectivity: all of them are then
    # judged below (positions, ranges) whatever came first
    first = [["node_lon", "node_lat"], ["node_lat", "node_lon"], ["face_node_connectivity", "node_lat", "node_lon"]][int(rng.integers(0, 3))]
    try:
        for nm in first:
            np.asarray(getattr(g, nm).values)
    except Exception as e:
        ctx.check("no_exception", False, dict(sig, stage="first_read", exc=core.exc_sig(e)), {"exc": repr(e)[:300], "mesh": case["mesh"]})
    ctx.observe("first_read_" + first[0])
    try:
        ok, why = ux.faces_match(g, exp, allow_reflection=info["reflect"])
    except Exception as e:
        ok, why = False, {"why": "exception while reading faces", "exc": repr(e)[:300]}
    ctx.check("faces_equal", ok, dict(sig, why=(why or {}).get("why", "")), {"why": why, "mesh": case["mesh"]})
    try:
        probs = ux.standard_table(g.face_node_connectivity, g.n_node)
        fv = g.face_node_connectivity.attrs.get("_FillValue", "absent")
        if fv != "absent" and fv != ux.INT_FILL:
            probs.append("_FillValue=%r" % (fv,))
        ctx.check("standard_form", not probs, dict(sig, problem=probs[0].split(" ")[0].split("=")[0] if probs else ""), {"problems": probs, "mesh": case["mesh"]})
        lon = np.asarray(g.node_lon.values, float)
        lat = np.asarray(g.node_lat.values, float)
        okr = bool(lon.size and np.all(lon >= -180) and np.all(lon <= 180) and np.all(lat >= -90) and np.all(lat <= 90))
        ctx.check("lon_lat_range", okr, sig, {"lon": [float(np.min(lon)), float(np.max(lon))], "lat": [float(np.min(lat)), float(np.max(lat))]})
    except Exception as e:
        ctx.check("no_exception", False, dict(sig, stage="observe", exc=core.exc_sig(e)), {"exc": repr(e)[:300]})
    if ok:
        supplied_checks(ctx, g, info, sig)
    # the same in-memory source object describes the same grid when it is opened a second time
    if ok and info.get("reopen") is not None:
        try:
            g2 = info["reopen"]()
            ok2, why2 = ux.faces_match(g2, exp, allow_reflection=info["reflect"])
            ctx.check("faces_equal", ok2, dict(sig, why=(why2 or {}).get("why", ""), opened="second_time_from_same_object"), {"why": why2, "mesh": case["mesh"]})
            ok1, why1 = ux.faces_match(g, exp, allow_reflection=info["reflect"])
            ctx.check("faces_equal", ok1, dict(sig, why=(why1 or {}).get("why", ""), opened="first_grid_after_second_open"), {"why": why1, "mesh": case["mesh"]})
            if ok2:
                supplied_checks(ctx, g2, info, dict(sig, opened="second_time_from_same_object"))
            ctx.observe("opened_twice_from_same_object")
        except Exception as e:
            ctx.check("no_exception", False, dict(sig, stage="second_open", exc=core.exc_sig(e)), {"exc": repr(e)[:300], "mesh": case["mesh"]})
    _bookkeeping(ctx, case, info)


def _info_only(case, m, rng):
    kind = case["kind"]
    try:
        if kind in ("geojson", "shp"):
            return {"format": "GeoJSON" if kind == "geojson" else "Shapefile", "dial": {"kind": kind}}
        fn = {"face_vertices": dialects.face_vertices, "topology": dialects.topology_args, "ugrid": dialects.ugrid_dataset, "mpas": dialects.mpas_dataset,
              "scrip": dialects.scrip_dataset, "exodus": dialects.exodus_dataset, "esmf": dialects.esmf_dataset, "icon": dialects.icon_dataset}
        if kind == "mpas_dual":
            _, info = dialects.mpas_dataset(m, rng, dual=True)
        elif kind == "geos":
            _, info = dialects.geos_dataset(case["mesh"]["ne"], rng)
        else:
            _, info = fn[kind](m, rng)
        info["dial"]["via_file"] = case["via_file"] and kind not in ("face_vertices", "topology")
        return info
    except Exception:
        return {"format": kind, "dial": {}}


def _bookkeeping(ctx, case, info):
    ctx.observe("kind_" + case["kind"])
    d = info.get("dial", {})
    if d.get("via_file"):
        ctx.observe("via_netcdf_file")
    if d.get("padded"):
        ctx.observe("mixed_sizes_padded")
    snapped = any(o[0] == "snap" for o in case["mesh"].get("ops", []))
    if snapped:
        ctx.observe("snapped_placement")
    ctx.mark_nontrivial()
    for k, v in d.items():
        if isinstance(v, (str, int, bool)):
            ctx.note_set("dialect_values", "%s:%s=%s" % (info.get("format"), k, v))
    ctx.sample({"kind": case["kind"], "mesh": case["mesh"], "dialect": {k: v for k, v in d.items() if isinstance(v, (str, int, bool, float))}})
