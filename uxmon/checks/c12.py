"""C12 - remapping picks true nearest sources and never invents values."""

import math
import warnings

import numpy as np

from .. import gen, ref, ux, core, nn, dialects

PROPERTY = "C12"
SHARDS = {"quick": 6, "thorough": 16}
RULE = (
    "cases: source/destination grid pairs from all mesh families (incl. polyhedra with n_node == n_face, single polygons with "
    "n_node == n_edge, MPAS-style sources whose face centres come from the file and differ from the corner mean) x data on "
    "nodes / edges / faces with 0..2 leading dimensions x destination kind x coord_type x (IDW) k in 2..8, power in {1,2,5}. "
    "Nearest neighbour: the data value IS the element id (+1000*leading index), so the chosen source is read off the result and "
    "must lie in the brute-force tie group of great-circle-nearest elements of the data's own kind. IDW: the weights are recovered "
    "exactly by remapping unit impulses (identity matrix as data) - they must be >= 0, sum to 1, vanish outside the k nearest, not "
    "increase with distance, and reproduce W @ data for random data and constants. Self-remap must be the identity; the same source grid object is also remapped onto a second destination with the same element counts (rotated copy). Non-trivial = "
    "leading dimensions, or a size coincidence between element kinds, or file-supplied centres, or different source and destination."
)
ASSUMPTIONS = [
    "positions of source and destination elements: centres from the file where supplied (what a fresh grid of the same source reports); for grids built from a bare topology the model's own - nodes, normalised corner mean of a face (C04), midpoint of an edge",
    "coordinates are attached to leading dimensions only",
    "k is admissible: 2 <= k <= number of source elements of the data's kind",
]
MIN_EVAL = {"quick": {"nn_nearest": 500, "nn_self_identity": 80, "idw_weights": 250, "idw_linear": 250, "dims_grid": 700},
            "thorough": {"nn_nearest": 12000, "nn_self_identity": 2000, "idw_weights": 6000, "idw_linear": 6000, "dims_grid": 17000}}

KINDS = {"n_node": "nodes", "n_edge": "edge centers", "n_face": "face centers"}
DESTS = ["nodes", "edge centers", "face centers"]
DEST_DIM = {"nodes": "n_node", "edge centers": "n_edge", "face centers": "n_face"}


def cases(tier, seed):
    rng = np.random.default_rng([seed, 1212])
    n = 110 if tier == "quick" else 10000
    # destinations whose element counts sit next to powers of two (block sizes of chunked neighbour searches): 2^12 + 1 and 2^15 + 1
    # face centres, 2^13 + 2 nodes ...
    for nface in ([4097] if tier == "quick" else [4097, 8193, 32769, 10923]):
        yield {"src": {"family": "voronoi", "n": 14, "seed": 5, "ops": []}, "dst": {"family": "ring_strip", "n": nface, "ops": []}, "same": False, "source_kind": "topology",
               "dseed": nface, "lead": [], "sized": True}
    coincide = [{"family": "polyhedron", "name": nm, "ops": []} for nm in ("tetrahedron", "pyramid", "pentapyramid")]
    for i in range(n):
        r = i % 6
        if r == 0:
            src = dict(coincide[int(rng.integers(0, 3))])
            if rng.random() < 0.5:
                src["ops"] = [["rot", int(rng.integers(0, 10**6))]]
        elif r == 1:
            # a single polygon: n_node == n_edge
            src = gen.random_mesh(rng, 30, families=["voronoi", "merged"])
            src["ops"] = [o for o in src.get("ops", []) if o[0] != "partial"] + [["partial", [int(rng.integers(0, 10**6)), 0.5, "one"]]]
        else:
            src = gen.random_mesh(rng, 40 if tier == "quick" else 120, families=gen.ALL_FAMILIES)
        same = bool(rng.random() < 0.2)
        dst = src if same else gen.random_mesh(rng, 40 if tier == "quick" else 150)
        yield {"src": src, "dst": dst, "same": same, "source_kind": "mpas" if (r == 2 and not same) else "topology",
               "dseed": int(rng.integers(0, 10**6)), "lead": [int(x) for x in rng.integers(1, 4, size=int(rng.integers(0, 3)))]}


def positions(g, kind):
    """unit vectors of the elements of a kind, from what the grid reports (lon/lat)."""
    name = {"nodes": "node", "edge centers": "edge", "face centers": "face"}[kind]
    lon = np.asarray(getattr(g, name + "_lon").values, dtype=float)
    lat = np.asarray(getattr(g, name + "_lat").values, dtype=float)
    return ref.lonlat_to_xyz(lon, lat)


def model_positions(g, m, kind):
    """positions of the elements of a grid built from a bare topology (no centres supplied): the mesh's own nodes, the normalised
    corner mean of each face, the midpoint of each edge (edge order: the grid's edge table) - nothing taken from the library's
    centre computation, so that a misplaced computed centre shows as a wrong neighbour"""
    if kind == "nodes":
        return ref.unit(m.xyz)
    if kind == "face centers":
        return np.array([ref.unit(m.ring_pos(i).mean(axis=0)) for i in range(m.n_face)])
    en = np.asarray(g.edge_node_connectivity.values)
    return ref.unit(m.xyz[en[:, 0]] + m.xyz[en[:, 1]])


def build_source(case, m, rng):
    U = ux.ux()
    if case["source_kind"] == "mpas" and ref.is_manifold(m.faces):
        # cell centres offset from the corner mean, as in real MPAS files (Voronoi generators)
        ds, info = dialects.mpas_dataset(m, rng, force={"optional_tables": True, "xyz": bool(rng.random() < 0.5)})
        C = ref.unit(dialects.face_centres(m) + 0.02 * rng.normal(size=(m.n_face, 3)))
        cl, ca = ref.xyz_to_lonlat(C)
        ds["lonCell"] = ds["lonCell"].copy(data=np.mod(np.deg2rad(cl), 2 * np.pi))
        ds["latCell"] = ds["latCell"].copy(data=np.deg2rad(ca))
        R = float(ds.attrs.get("sphere_radius", 1.0))
        if "xCell" in ds:
            for k_, ax in enumerate("xyz"):
                ds[ax + "Cell"] = ds[ax + "Cell"].copy(data=C[:, k_] * R)
        mk = lambda: U.open_grid(ds.copy(deep=True))  # noqa: E731
        return mk(), mk(), True
    return ux.grid_from_mesh(m), ux.grid_from_mesh(m), False


def run_case(ctx, case):
    U = ux.ux()
    rng = np.random.default_rng(case["dseed"])
    ms = gen.build(case["src"])
    try:
        gs, gs_twin, supplied = build_source(case, ms, rng)
    except Exception as e:
        ctx.check("no_exception", False, {"stage": "open_source", "exc": core.exc_sig(e)}, {"exc": repr(e), "case": case})
        return
    if case["same"]:
        gd, gd_twin = gs, gs_twin
    else:
        md = gen.build(case["dst"])
        gd, gd_twin = ux.grid_from_mesh(md), ux.grid_from_mesh(md)
    # a second destination with the same element counts but other positions (the destination mesh rigidly rotated): the same
    # source grid object is remapped onto it right after the first one with the same arguments
    md2 = gen.random_rotated(gen.build(case["dst"]) if not case["same"] else ms, case["dseed"] + 5)
    gd2, gd2_twin = ux.grid_from_mesh(md2), ux.grid_from_mesh(md2)
    counts = {"n_node": gs_twin.n_node, "n_edge": gs_twin.n_edge, "n_face": gs_twin.n_face}
    lead = tuple(case["lead"])
    ldims = ["t%d" % i for i in range(len(lead))]
    for dim in (("n_face", "n_node", "n_edge") if not case.get("sized") else ("n_face",)):
        kind = KINDS[dim]
        ne = counts[dim]
        coincide = sorted(d for d in counts if d != dim and counts[d] == ne)
        P_src = positions(gs_twin, kind) if supplied else model_positions(gs_twin, ms, kind)
        # tie tolerance (radians).  1e-9 normally.  Elements inside the library's pole-snapping band have a lon/lat position (at the
        # pole) and a Cartesian one (up to 1.42e-4 rad away): either may be used.  Cartesian coordinates in metres make the chord
        # |R p - q|^2 = R^2 + 1 - 2 R p.q resolve angles only to eps * R / (2 sin(angle)).
        nm_ = {"nodes": "node", "edge centers": "edge", "face centers": "face"}[kind]
        try:
            R_src = float(np.median(np.sqrt(np.asarray(getattr(gs_twin, nm_ + "_x").values, float) ** 2 + np.asarray(getattr(gs_twin, nm_ + "_y").values, float) ** 2
                                             + np.asarray(getattr(gs_twin, nm_ + "_z").values, float) ** 2)))
        except Exception:
            R_src = 1.0
        src_band = bool(np.any(np.abs(P_src[:, 2]) > 1 - 1.01e-8))
        # ---- data whose value is the element id
        ids = np.arange(ne, dtype=float)
        # build with leading dims in order t0, t1 (outermost first)
        data = np.broadcast_to(ids, lead + (ne,)).copy()
        off = np.zeros(lead + (1,))
        for ax, n_ in enumerate(lead):
            shp = [1] * (len(lead) + 1)
            shp[ax] = n_
            off = off + (np.arange(n_).reshape(shp) + 1) * 1000.0 * (10 ** ax)
        data = data + off
        coords = {d_: np.arange(n_) * 1.5 for d_, n_ in zip(ldims, lead)} if lead and rng.random() < 0.5 else None
        da = U.UxDataArray(data.copy(), dims=ldims + [dim], coords=coords, uxgrid=gs, name="v")
        if case["dseed"] % 4 == 1:
            da = da.chunk({dim: max(1, ne // 2)})  # dask-backed source data
            ctx.observe("dask_backed_source_data")
        for remap_to in (DESTS if not case.get("sized") else ["face centers"]):
            P_dst = positions(gd_twin, remap_to) if (case["same"] and supplied) else model_positions(gd_twin, ms if case["same"] else md, remap_to)
            nd = len(P_dst)
            D = nn.distances("haversine", P_src, None, q_xyz=P_dst)  # (nd, ne)
            dst_band = bool(np.any(np.abs(P_dst[:, 2]) > 1 - 1.01e-8))
            for coord_type in ("spherical", "cartesian"):
                TIE = 3e-4 if (src_band or dst_band) else (1e-9 if (coord_type == "spherical" or R_src < 10) else 1e-9 + 1e-14 * R_src)
                sig = {"data_on": dim, "remap_to": remap_to, "coord_type": coord_type, "coincide": "+".join(coincide), "supplied_centres": supplied and dim == "n_face",
                       "rank": len(lead) + 1, "same_grid": case["same"], "single_dest": nd == 1}
                det = {"case": case}
                # ------------------------------------------------ nearest neighbour
                try:
                    with warnings.catch_warnings():
                        warnings.simplefilter("ignore")
                        r = da.remap.nearest_neighbor(gd, remap_to=remap_to, coord_type=coord_type)
                    vals = np.asarray(r.values)
                    okm = isinstance(r, U.UxDataArray) and tuple(r.dims) == tuple(ldims + [DEST_DIM[remap_to]]) and r.uxgrid is gd and r.name == "v" and vals.shape == lead + (nd,)
                    ctx.check("dims_grid", okm, dict(sig, op="nearest_neighbor"), dict(det, dims=list(getattr(r, "dims", [])), shape=list(vals.shape), want_shape=list(lead + (nd,))))
                    if vals.shape == lead + (nd,):
                        chosen = vals - off
                        good = True
                        why = None
                        mins = D.min(axis=1)
                        flat = chosen.reshape(-1, nd)
                        for row in flat:
                            idx = np.rint(row).astype(int)
                            if np.any(np.abs(row - idx) > 1e-9) or np.any(idx < 0) or np.any(idx >= ne):
                                good, why = False, {"why": "value is not a source element id of this leading index", "row": row[:6].tolist()}
                                break
                            dsel = D[np.arange(nd), idx]
                            bad = np.argwhere(dsel > mins + TIE)
                            if len(bad):
                                b = int(bad[0][0])
                                good, why = False, {"why": "not the nearest", "dest": b, "chosen": int(idx[b]), "chosen_dist": float(dsel[b]), "nearest": int(np.argmin(D[b])), "nearest_dist": float(mins[b])}
                                break
                        ctx.check("nn_nearest", good, sig, dict(det, **(why or {})))
                        if case["same"] and KINDS[dim] == remap_to and not src_band:  # (elements reported at the very same point - both snapped to a pole - have no identity)
                            ctx.check("nn_self_identity", np.array_equal(vals, data), sig, det)
                    # second destination, same counts, same arguments, same source grid object
                    with warnings.catch_warnings():
                        warnings.simplefilter("ignore")
                        r2 = da.remap.nearest_neighbor(gd2, remap_to=remap_to, coord_type=coord_type)
                    P2 = model_positions(gd2_twin, md2, remap_to)
                    D2 = nn.distances("haversine", P_src, None, q_xyz=P2)
                    v2 = np.asarray(r2.values)
                    good2 = v2.shape == lead + (len(P2),) and r2.uxgrid is gd2
                    if good2:
                        for row in (v2 - off).reshape(-1, len(P2)):
                            idx2 = np.rint(row).astype(int)
                            if np.any(idx2 < 0) or np.any(idx2 >= ne) or np.any(D2[np.arange(len(P2)), idx2] > D2.min(axis=1) + max(TIE, 3e-4 if bool(np.any(np.abs(P2[:, 2]) > 1 - 1.01e-8)) else 0.0)):
                                good2 = False
                                break
                    ctx.check("nn_nearest", good2, dict(sig, destination="second_with_same_counts"), det)
                except Exception as e:
                    ctx.check("no_exception", False, dict(sig, stage="nearest_neighbor", exc=core.exc_sig(e)), dict(det, exc=repr(e)[:300]))
                # ------------------------------------------------ inverse distance weighted
                if ne < 2:
                    continue
                k = int(min(ne, rng.integers(2, 9)))
                if case.get("sized"):
                    k = int(min(ne, {4097: 8, 8193: 4, 10923: 3}.get(nd, k)))  # 2^15 // k + 1 destination points
                power = int(rng.choice([1, 2, 5]))
                sigw = dict(sig, k=min(k, 9), power=power, k_eq_n=(k == ne))
                try:
                    with warnings.catch_warnings():
                        warnings.simplefilter("ignore")
                        imp = U.UxDataArray(np.eye(ne), dims=["impulse", dim], uxgrid=gs, name="w")
                        rw = imp.remap.inverse_distance_weighted(gd, remap_to=remap_to, coord_type=coord_type, power=power, k=k)
                    W = np.asarray(rw.values, dtype=float)
                    if W.shape != (ne, nd):
                        ctx.check("idw_weights", False, dict(sigw, why="shape"), dict(det, shape=list(W.shape), want=[ne, nd]))
                        continue
                    W = W.T  # (nd, ne)
                    why = None
                    kth = np.sort(D, axis=1)[:, k - 1]
                    if np.any(W < -1e-15):
                        why = "negative weight"
                    elif np.any(np.abs(W.sum(axis=1) - 1.0) > 1e-12):
                        why = "weights do not sum to 1"
                    elif np.any((W > 0) & (D > kth[:, None] + TIE)):
                        why = "weight on an element that is not among the k nearest"
                    elif np.any((W > 0).sum(axis=1) > k):
                        why = "more than k weighted elements"
                    else:
                        for b in range(nd):
                            sup = np.nonzero(W[b] > 0)[0]
                            o = sup[np.argsort(D[b, sup])]
                            dd, ww = D[b, o], W[b, o]
                            inc = (np.diff(ww) > 1e-12) & (np.diff(dd) > TIE)
                            if np.any(inc):
                                why = "weight increases with distance"
                                break
                            if len(sup) < k and not np.any(np.abs(np.sort(D[b])[: k + 1][-1] - kth[b]) < TIE):
                                why = "fewer than k weighted elements"
                                break
                    ctx.check("idw_weights", why is None, dict(sigw, why=why or ""), dict(det, why=why))
                    # linearity / leading dimensions / constants, on the real data kinds
                    rnd = rng.normal(size=lead + (ne,))
                    const = np.full(lead + (ne,), 7.0)
                    for nm, arr in (("random", rnd), ("constant", const), ("integer_ids", data)):
                        with warnings.catch_warnings():
                            warnings.simplefilter("ignore")
                            src = U.UxDataArray(arr.copy() if nm != "integer_ids" else arr.astype(np.int64), dims=ldims + [dim], uxgrid=gs, name="v")
                            rr = src.remap.inverse_distance_weighted(gd, remap_to=remap_to, coord_type=coord_type, power=power, k=k)
                        got = np.asarray(rr.values, dtype=float)
                        want = np.tensordot(arr, W.T, axes=([-1], [0]))
                        okl = got.shape == want.shape and np.allclose(got, want, rtol=1e-10, atol=1e-9 * max(1.0, float(np.max(np.abs(arr)))))
                        ctx.check("idw_linear", okl, dict(sigw, data=nm), dict(det, max_diff=float(np.max(np.abs(got - want))) if got.shape == want.shape else None, shape=list(got.shape)))
                        okm = isinstance(rr, U.UxDataArray) and tuple(rr.dims) == tuple(ldims + [DEST_DIM[remap_to]]) and rr.uxgrid is gd and rr.name == "v"
                        ctx.check("dims_grid", okm, dict(sig, op="inverse_distance_weighted"), dict(det, dims=list(getattr(rr, "dims", []))))
                except Exception as e:
                    ctx.check("no_exception", False, dict(sigw, stage="inverse_distance_weighted", exc=core.exc_sig(e)), dict(det, exc=repr(e)[:300]))
        if coincide:
            ctx.observe("size_coincidence_" + dim + "=" + "+".join(coincide))
    if lead or not case["same"] or supplied or any(counts[a] == counts[b] for a in counts for b in counts if a < b):
        ctx.mark_nontrivial()
    ctx.observe("pairs")
    if supplied:
        ctx.observe("source_with_file_centres")
    if case["same"]:
        ctx.observe("self_remap_pairs")
    ctx.sample({"src": case["src"], "dst": case["dst"], "lead": case["lead"], "source_kind": case["source_kind"], "counts": counts})
