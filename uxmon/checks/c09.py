"""C09 - subsets and cross-sections are faithful, fully functional restrictions."""

import math
import warnings

import numpy as np

from .. import gen, ref, ux, core, nn, dialects

PROPERTY = "C09"
SHARDS = {"quick": 8, "thorough": 16}
MODES = {
    "quick": [{"name": "jit-omp", "env": {"NUMBA_THREADING_LAYER": "omp", "NUMBA_NUM_THREADS": "16"}}],
    "thorough": [{"name": "jit-omp+boundscheck", "env": {"NUMBA_THREADING_LAYER": "omp", "NUMBA_NUM_THREADS": "16", "NUMBA_BOUNDSCHECK": "1"}},
                 {"name": "jit-workqueue", "env": {"NUMBA_THREADING_LAYER": "workqueue", "NUMBA_NUM_THREADS": "16"}}],
}
RULE = (
    "cases: source grids (explicit topology with derived tables; explicit topology shipping its own shuffled edge tables; MPAS "
    "sources shipping all tables) x selections: isel on n_face / n_node / n_edge (unsorted lists, arrays, scalar, single element, "
    "all elements), bounding boxes (incl. antimeridian-spanning and boxes whose edge passes through element positions), bounding "
    "circles, k nearest (k = 1..n), constant-latitude cross-sections (incl. a node's own latitude), each applied to the grid and to "
    "face- / node- / edge-centred id-valued data of rank 1..3 (coordinates on leading and on the element dimension); each selection "
    "runs on a fresh source and on a 'warm' source on which a random set of derived quantities and trees was built before, and the "
    "latitude scan additionally under 1,2,3,4,8,16 numba threads. Oracle: set model with three-valued expectation (must / may / "
    "must-not, 1e-9 band at region boundaries, 1e-14 in z for the parallel); result faces are matched to source faces by corner "
    "positions (independent of the recorded indices, which must agree); every derived table and geometric quantity of the result is "
    "requested and compared with the set model of the result / the source's values at the matched faces. Non-trivial = the "
    "selection keeps a proper, non-empty subset of the faces."
)
ASSUMPTIONS = [
    "index selections contain no duplicate indices",
    "element reference points are those a fresh grid of the same source reports",
    "region boundaries: elements within 1e-9 deg/rad of the boundary are don't-care; parallels: nodes within 1e-14 (in z) are don't-care",
]
MIN_EVAL = {"quick": {"face_set": 600, "corner_positions": 600, "recorded_indices": 600, "derived_on_result": 2000, "data_attached": 500, "history_independent": 250, "thread_independent": 60},
            "thorough": {"face_set": 14000, "corner_positions": 14000, "recorded_indices": 14000, "derived_on_result": 40000, "data_attached": 11000, "history_independent": 6000, "thread_independent": 1500}}

WARM = ["edge_node_connectivity", "face_edge_connectivity", "node_face_connectivity", "edge_face_connectivity", "face_face_connectivity", "face_lon", "edge_lon",
        "face_x", "edge_x", "node_x", "face_areas", "edge_node_distances", "edge_face_distances", "n_nodes_per_face", "hole_edge_indices", "ball_faces", "kd_nodes", "ball_edges_cart"]
SEL_KINDS = ["isel_face", "isel_node", "isel_edge", "box", "box_am", "circle", "knn", "lat"]


def cases(tier, seed):
    rng = np.random.default_rng([seed, 909])
    n = 150 if tier == "quick" else 12000
    for i in range(n):
        yield {"mesh": gen.random_mesh(rng, 60 if tier == "quick" else 220, families=gen.ALL_FAMILIES), "source": ["topology", "topology_edges", "mpas"][i % 3],
               "sseed": int(rng.integers(0, 10**6)), "nsel": 5, "threads": bool(i % 4 == 0)}


class Prefix:
    """ctx proxy: re-labels the clauses of the C02/C03 grid validators as clauses of this property."""

    def __init__(self, ctx, clause, sig):
        self._ctx, self._clause, self._sig = ctx, clause, sig

    def check(self, clause, ok, sig=None, detail=None):
        s = dict(self._sig)
        s["table"] = clause if not sig else (sig.get("table") or sig.get("what") or sig.get("attr") or clause)
        if sig and "exc" in sig:
            s["exc"] = sig["exc"]
        return self._ctx.check(self._clause, ok, s, detail)

    def __getattr__(self, name):
        return getattr(self._ctx, name)


def make_factory(case, m):
    U = ux.ux()
    rng = np.random.default_rng(case["sseed"])
    if case["source"] == "mpas" and ref.is_manifold(m.faces):
        ds, info = dialects.mpas_dataset(m, rng, force={"optional_tables": True})
        return (lambda: U.open_grid(ds.copy(deep=True))), "mpas"
    if case["source"] == "topology_edges":
        edges = sorted(ref.edge_set(m.faces), key=lambda e: sorted(e))
        perm = rng.permutation(len(edges))
        edges = [edges[i] for i in perm]
        eid = {e: i for i, e in enumerate(edges)}
        en = np.array([sorted(e) if rng.random() < 0.5 else sorted(e)[::-1] for e in edges], dtype=np.intp)
        w = max(len(f) for f in m.faces)
        fe = np.full((m.n_face, w), ux.INT_FILL, dtype=np.intp)
        for i, f in enumerate(m.faces):
            fe[i, : len(f)] = [eid[e] for e in ref.face_edges(f)]
        return (lambda: ux.grid_from_mesh(m, extra={"edge_node_connectivity": en.copy(), "face_edge_connectivity": fe.copy()})), "topology_edges"
    return (lambda: ux.grid_from_mesh(m)), "topology"


def warm_up(ctx, g, rng):
    done = []
    for name in rng.choice(WARM, size=int(rng.integers(2, 9)), replace=False):
        try:
            if name == "ball_faces":
                g.get_ball_tree("face centers")
            elif name == "kd_nodes":
                g.get_kd_tree("nodes")
            elif name == "ball_edges_cart":
                g.get_ball_tree("edge centers", coordinate_system="cartesian", distance_metric="euclidean")
            else:
                getattr(g, str(name))
            done.append(str(name))
        except Exception as e:
            ctx.observe("warm_up_raised:%s:%s" % (name, core.exc_sig(e)))
    return done


def three_valued_faces(m, en, kind, must_el, may_el):
    """faces touching must / may elements of a kind."""
    def faces_of(el):
        el = set(int(x) for x in el)
        out = set()
        if kind == "face":
            return el
        if kind == "node":
            for fi, f in enumerate(m.faces):
                if el & set(f):
                    out.add(fi)
            return out
        pairs = {frozenset(map(int, en[e])) for e in el}
        for fi, f in enumerate(m.faces):
            if pairs & set(ref.face_edges(f)):
                out.add(fi)
        return out
    return faces_of(must_el), faces_of(may_el)


def match_faces(R, m, index):
    """Map every face of result grid R to a source face by corner positions.  Returns (list or None, why)."""
    rings = ux.grid_face_rings(R)
    xyz = ux.grid_node_xyz(R)
    out = []
    for r in rings:
        if any(v < 0 or v >= len(xyz) for v in r) or len(r) < 3:
            return None, {"why": "bad row", "row": r}
        P = xyz[r]
        key = (len(r),) + tuple(np.round(P.mean(axis=0), 5))
        found = None
        for dk in index.get(key, []):
            Q = m.ring_pos(dk)
            if ref.same_cycle_pos_band(P, Q):
                found = dk
                break
        if found is None:
            # tolerate rounding of the key: brute force
            for dk in range(m.n_face):
                Q = m.ring_pos(dk)
                if len(Q) == len(P) and ref.same_cycle_pos_band(P, Q):
                    found = dk
                    break
        if found is None:
            return None, {"why": "result face matches no source face", "ring": np.array(ref.xyz_to_lonlat(P)).T.tolist()}
        out.append(found)
    return out, None


def draw_selection(rng, m, elem):
    """elem: dict kind -> (xyz, lonlat_deg) of the source's reference points.  Returns a selection descriptor."""
    kind = SEL_KINDS[int(rng.integers(0, len(SEL_KINDS)))]
    el = ["face", "node", "edge"][int(rng.integers(0, 3))]
    n_el = len(elem[el][0])
    if kind.startswith("isel"):
        el = kind.split("_")[1]
        n_el = len(elem[el][0])
        form = ["list", "array", "scalar", "single", "all", "reversed", "bool_mask", "negstep_slice"][int(rng.integers(0, 8))]
        if form == "scalar":
            idx = int(rng.integers(0, n_el))
        elif form == "single":
            idx = [int(rng.integers(0, n_el))]
        elif form == "all":
            idx = list(range(n_el))
        elif form == "negstep_slice":
            step = -int(rng.integers(1, 4))
            idx = list(range(n_el))[::step]
            return {"kind": kind, "element": el, "form": form, "idx": idx, "slice": [None, None, step]}
        else:
            k = int(rng.integers(1, max(2, n_el // 2 + 1)))
            idx = [int(i) for i in rng.choice(n_el, size=k, replace=False)]
            if form == "reversed":
                idx = sorted(idx, reverse=True)
            if form == "bool_mask":
                idx = sorted(idx)
                return {"kind": kind, "element": el, "form": form, "idx": idx, "mask_len": n_el}
        return {"kind": kind, "element": el, "form": form, "idx": idx}
    P, LL = elem[el]
    if kind in ("box", "box_am"):
        c = int(rng.integers(0, n_el))
        lon0, lat0 = float(LL[c, 0]), float(LL[c, 1])
        w, h = float(rng.uniform(5, 90)), float(rng.uniform(5, 60))
        if kind == "box_am":
            left = float(rng.uniform(100, 179.5))
            right = float(rng.uniform(-179.5, -100))
            lonb = [round(left, 3), round(right, 3)]
            on_am = np.nonzero(np.abs(np.abs(LL[:, 0]) - 180.0) < 1e-12)[0]
            if len(on_am) and rng.random() < 0.7:
                # an element exactly on lon = +-180 lies strictly inside every antimeridian-spanning box
                lat0 = float(LL[on_am[int(rng.integers(0, len(on_am)))], 1])
        else:
            left, right = max(-180.0, lon0 - w / 2), min(180.0, lon0 + w / 2)
            if rng.random() < 0.3:
                left = lon0  # the box edge passes exactly through an element position
            lonb = [left, right]
        latb = [max(-90.0, lat0 - h / 2), min(90.0, lat0 + h / 2)]
        return {"kind": kind, "element": el, "lon_bounds": lonb, "lat_bounds": latb}
    if kind == "circle":
        q = ref.unit(P[int(rng.integers(0, n_el))] + 0.2 * rng.normal(size=3))
        lon, lat = ref.xyz_to_lonlat(q)
        return {"kind": kind, "element": el, "center": [float(lon), float(lat)], "r": float(rng.uniform(2, 60)), "center_as_array": bool(rng.random() < 0.5)}
    if kind == "knn":
        q = ref.unit(rng.normal(size=3)) if rng.random() < 0.5 else ref.unit(P[int(rng.integers(0, n_el))] + 0.05 * rng.normal(size=3))
        lon, lat = ref.xyz_to_lonlat(q)
        k = int([1, 2, max(1, n_el // 3), n_el][int(rng.integers(0, 4))])
        return {"kind": kind, "element": el, "center": [float(lon), float(lat)], "k": min(k, n_el), "center_as_array": bool(rng.random() < 0.5)}
    # constant latitude
    nlat = elem["node"][1][:, 1]
    r = rng.random()
    if r < 0.3:
        lat = float(nlat[int(rng.integers(0, len(nlat)))])
        if abs(lat) >= 90:
            lat = 0.0
    else:
        lat = float(rng.uniform(max(-89.5, nlat.min() - 1), min(89.5, nlat.max() + 1)))
    return {"kind": "lat", "element": "face", "lat": lat}


ELEMENT_ARG = {"face": "face centers", "node": "nodes", "edge": "edge centers"}


def expected(sel, m, en, elem):
    """(must_faces, may_faces, note)"""
    el = sel["element"]
    if sel["kind"].startswith("isel"):
        idx = sel["idx"] if isinstance(sel["idx"], list) else [sel["idx"]]
        return three_valued_faces(m, en, el, idx, idx)
    P, LL = elem[el]
    if sel["kind"] in ("box", "box_am"):
        lo, hi = sel["lon_bounds"]
        la0, la1 = sel["lat_bounds"]
        lon, lat = LL[:, 0], LL[:, 1]
        b = 1e-9
        if lo > hi:
            lon_must = (lon > lo + b) | (lon < hi - b)
            lon_may = (lon >= lo - b) | (lon <= hi + b)
        else:
            lon_must = (lon > lo + b) & (lon < hi - b)
            lon_may = (lon >= lo - b) & (lon <= hi + b)
        lat_must = (lat > la0 + b) & (lat < la1 - b)
        lat_may = (lat >= la0 - b) & (lat <= la1 + b)
        # a pole has no longitude: leave elements at a pole to don't-care in longitude
        atpole = np.abs(lat) >= 90 - 1e-9
        must = np.nonzero(lon_must & lat_must & ~atpole)[0]
        may = np.nonzero((lon_may | atpole) & lat_may)[0]
        return three_valued_faces(m, en, el, must, may)
    if sel["kind"] == "lat":
        zc = math.sin(math.radians(sel["lat"]))
        s0 = m.xyz[en[:, 0], 2] - zc
        s1 = m.xyz[en[:, 1], 2] - zc
        tiny = (np.abs(s0) <= 1e-14) | (np.abs(s1) <= 1e-14)
        must = np.nonzero((s0 * s1 < 0) & ~tiny)[0]
        may = np.nonzero((s0 * s1 < 0) | tiny)[0]
        return three_valued_faces(m, en, "edge", must, may)
    q = ref.lonlat_to_xyz(sel["center"][0], sel["center"][1])
    D = nn.distances("haversine", P, None, q_xyz=q[None, :])[0]
    if sel["kind"] == "circle":
        r = math.radians(sel["r"])
        return three_valued_faces(m, en, el, np.nonzero(D < r - 1e-9)[0], np.nonzero(D <= r + 1e-9)[0])
    if sel["kind"] == "knn":
        dk = np.sort(D)[sel["k"] - 1]
        return three_valued_faces(m, en, el, np.nonzero(D < dk - 1e-9)[0], np.nonzero(D <= dk + 1e-9)[0])
    raise ValueError(sel['kind'])


_CENTRE_ARRAYS = {}


def centre_of(sel):
    """The centre of a circle / k-nearest selection as ONE float ndarray per selection, handed to every call that uses this selection
    (a script keeps its point of interest in an array and reuses it): the library must not write into it."""
    key = (tuple(sel["center"]), sel["kind"], sel.get("element"))
    if key not in _CENTRE_ARRAYS:
        _CENTRE_ARRAYS[key] = np.array(sel["center"], dtype=float)
    return _CENTRE_ARRAYS[key]


def apply_selection(obj, sel, is_data=False):
    """obj: Grid or UxDataArray."""
    k = sel["kind"]
    if k.startswith("isel"):
        ind = sel["idx"]
        if sel.get("form") == "bool_mask":
            ind = np.zeros(sel["mask_len"], dtype=bool)
            ind[sel["idx"]] = True
        elif sel.get("form") == "negstep_slice" and is_data:
            ind = slice(*sel["slice"])  # (Grid.isel takes index lists; the data array takes slices too)
        elif sel.get("form") == "array":
            ind = np.asarray(ind)
        return obj.isel(**{"n_" + sel["element"]: ind})
    if k in ("box", "box_am"):
        return obj.subset.bounding_box(sel["lon_bounds"], sel["lat_bounds"], element=ELEMENT_ARG[sel["element"]])
    if k == "circle":
        return obj.subset.bounding_circle(centre_of(sel) if sel.get("center_as_array") else tuple(sel["center"]), sel["r"], element=ELEMENT_ARG[sel["element"]])
    if k == "knn":
        return obj.subset.nearest_neighbor(centre_of(sel) if sel.get("center_as_array") else tuple(sel["center"]), sel["k"], element=ELEMENT_ARG[sel["element"]])
    return obj.cross_section.constant_latitude(sel["lat"])


def validate_result(ctx, R, sel, m, index, must, may, sig, det, src_vals, deep):
    """R: result Grid.  Returns the face mapping (result face -> source face) or None."""
    mapping, why = match_faces(R, m, index)
    ctx.check("corner_positions", mapping is not None, sig, dict(det, **(why or {})))
    if mapping is None:
        return None
    got = set(mapping)
    ok = len(got) == len(mapping) and must <= got <= may
    ctx.check("face_set", ok, sig, dict(det, duplicates=len(mapping) - len(got), missing=sorted(must - got)[:8], extra=sorted(got - may)[:8], n_must=len(must), n_may=len(may)))
    try:
        rec = R._ds["subgrid_face_indices"].values if "subgrid_face_indices" in R._ds else None
    except Exception:
        rec = None
    if rec is not None:
        ctx.check("recorded_indices", list(map(int, np.asarray(rec).reshape(-1))) == mapping, sig, dict(det, recorded=np.asarray(rec).reshape(-1)[:10].tolist(), matched=mapping[:10]))
    if not deep:
        return mapping
    # ---- fully functional: every derived table / geometric quantity on the result
    from . import c02, c03

    rings = ux.grid_face_rings(R)
    n_node = R.n_node
    width = np.asarray(R.face_node_connectivity.values).shape[1]
    psig = dict(sig)
    try:
        with warnings.catch_warnings():
            warnings.simplefilter("ignore")
            c02.check_grid(Prefix(ctx, "derived_on_result", psig), R, rings, n_node, width, False, int(det.get("order", 0)) % len(c02.ORDERS), {})
            c03.check_grid(Prefix(ctx, "derived_on_result", psig), R, rings, n_node, int(det.get("order", 0)) % len(c03.ORDERS), {})
    except Exception as e:
        ctx.check("derived_on_result", False, dict(psig, table="validator", exc=core.exc_sig(e)), dict(det, exc=repr(e)[:300]))
    # the result's own edge distances: zero on ITS boundary edges, the distance between ITS face centres elsewhere (C16 on the result)
    try:
        with warnings.catch_warnings():
            warnings.simplefilter("ignore")
            ef_ = np.asarray(R.edge_face_connectivity.values)
            efd_ = np.asarray(R.edge_face_distances.values, dtype=float)
            C_ = ref.lonlat_to_xyz(np.asarray(R.face_lon.values, float), np.asarray(R.face_lat.values, float))
        inner_ = ef_[:, 1] != ux.INT_FILL
        want_ = np.zeros(len(ef_))
        want_[inner_] = ref.angle(C_[ef_[inner_, 0]], C_[ef_[inner_, 1]])
        ctx.check("derived_on_result", efd_.shape == want_.shape and bool(np.all(np.abs(efd_ - want_) <= np.maximum(1e-13, 1e-12 * want_))), dict(psig, table="edge_face_distances"),
                  dict(det, nonzero_on_boundary=int(np.sum(efd_[~inner_] != 0)) if efd_.shape == want_.shape else None))
    except Exception as e:
        ctx.check("derived_on_result", False, dict(psig, table="edge_face_distances", exc=core.exc_sig(e)), dict(det, exc=repr(e)[:300]))
    # geometric quantities agree with the source restricted to the selection
    for name in ("face_lon", "face_lat", "face_x", "face_areas", "n_nodes_per_face", "edge_node_distances", "edge_lon", "node_x", "bounds"):
        if name == "bounds" and (len(mapping) > 40 or int(det.get("order", 0)) % 3):
            continue
        try:
            with warnings.catch_warnings():
                warnings.simplefilter("ignore")
                v = np.asarray(getattr(R, name).values)
        except Exception as e:
            ctx.check("derived_on_result", False, dict(psig, table=name, exc=core.exc_sig(e)), dict(det, exc=repr(e)[:300]))
            continue
        if name in src_vals and name in ("face_lon", "face_lat", "face_x", "face_areas", "n_nodes_per_face", "bounds"):
            want = src_vals[name][mapping]
            okv = v.shape == want.shape and np.allclose(v.astype(float), want.astype(float), rtol=1e-12, atol=1e-12)
            if name == "face_lon" and not okv and v.shape == want.shape:
                dl = np.abs(v - want)
                okv = bool(np.all(np.minimum(dl, 360 - dl) < 1e-9))
            ctx.check("derived_on_result", okv, dict(psig, table=name + "==source[selection]"), dict(det, got=v.reshape(-1)[:4].tolist(), want=np.asarray(want).reshape(-1)[:4].tolist()))
        else:
            ctx.check("derived_on_result", True, dict(psig, table=name))
    return mapping


def data_checks(ctx, U, gsrc, sel, m, en, index, rng, sig, det, must=(), may=None):
    """Select through id-valued data of each kind; the values identify the source element each result element came from."""
    lead = tuple(int(x) for x in rng.integers(1, 3, size=int(rng.integers(0, 3))))
    ldims = ["t%d" % i for i in range(len(lead))]
    n_by = {"n_face": m.n_face, "n_node": m.n_node, "n_edge": len(en)}
    n_face_through_data = None
    for dim in ("n_face", "n_node", "n_edge"):
        n_el = n_by[dim]
        ids = np.broadcast_to(np.arange(n_el, dtype=float), lead + (n_el,)).copy()
        off = np.zeros(lead + (1,))
        for ax, n_ in enumerate(lead):
            shp = [1] * (len(lead) + 1)
            shp[ax] = n_
            off = off + (np.arange(n_).reshape(shp) + 1) * 1e6 * (10 ** ax)
        coords = {}
        elem_coord = bool(rng.random() < 0.3)
        if lead and rng.random() < 0.5:
            coords[ldims[0]] = np.arange(lead[0]) * 2.0
        if elem_coord:
            coords[dim] = np.arange(n_el) + 0.5
        da = U.UxDataArray(ids + off, dims=ldims + [dim], coords=coords or None, uxgrid=gsrc, name="ids")
        dsig = dict(sig, data_on=dim, rank=len(lead) + 1, element_coord=elem_coord)
        try:
            with warnings.catch_warnings():
                warnings.simplefilter("ignore")
                r = apply_selection(da, sel, is_data=True)
        except ValueError as e:
            if ("No " in str(e) and ("found" in str(e))) or not must:
                continue  # nothing has to be selected: reporting that with a ValueError is admissible
            ctx.check("no_exception", False, dict(dsig, stage="data_selection", exc=core.exc_sig(e)), dict(det, exc=repr(e)[:300]))
            continue
        except Exception as e:
            ctx.check("no_exception", False, dict(dsig, stage="data_selection", exc=core.exc_sig(e)), dict(det, exc=repr(e)[:300]))
            continue
        try:
            R = r.uxgrid
            vals = np.asarray(r.values, dtype=float)
            okm = isinstance(r, U.UxDataArray) and tuple(r.dims) == tuple(ldims + [dim]) and R is not None
            n_res = {"n_face": R.n_face, "n_node": R.n_node, "n_edge": R.n_edge}[dim]
            okm = okm and vals.shape == lead + (n_res,)
            ctx.check("data_attached", okm, dict(dsig, what="dims/shape/grid"), dict(det, dims=list(r.dims), shape=list(vals.shape), n_res=n_res))
            if not okm:
                continue
            if dim != "n_face" and n_face_through_data is not None:
                ctx.check("face_set", R.n_face == n_face_through_data, dict(dsig, why="same selection through data of another kind"), dict(det, n_face=int(R.n_face), n_face_via_face_data=n_face_through_data))
            got_ids = np.rint(vals - off).astype(int)
            same_all_lead = bool(np.all(got_ids == got_ids.reshape(-1, n_res)[0]))
            row = got_ids.reshape(-1, n_res)[0]
            if dim == "n_face":
                mapping, why = match_faces(R, m, index)
                good = mapping is not None and list(row) == mapping
                if mapping is not None and may is not None:
                    # the selection made THROUGH THE DATA ARRAY is held to the same region semantics as the grid's own
                    fs = set(mapping)
                    ctx.check("face_set", set(must) <= fs <= set(may), dict(dsig, why="selected through the data array"),
                              dict(det, missing=sorted(set(must) - fs)[:6], extra=sorted(fs - set(may))[:6], n_result=len(fs), n_must=len(must), n_may=len(may)))
                    n_face_through_data = len(fs)
            elif dim == "n_node":
                P = ux.grid_node_xyz(R)
                good = bool(np.all((row >= 0) & (row < m.n_node))) and bool(np.all(ref.angle(P, m.xyz[np.clip(row, 0, m.n_node - 1)]) < np.where(np.abs(P[:, 2]) > 1 - 1e-7, 2e-4, 1e-9)))
            else:
                P = ux.grid_node_xyz(R)
                ren = np.asarray(R.edge_node_connectivity.values)
                good = bool(np.all((row >= 0) & (row < len(en))))
                if good:
                    for j in range(n_res):
                        a, b = P[ren[j, 0]], P[ren[j, 1]]
                        c, d_ = m.xyz[en[row[j], 0]], m.xyz[en[row[j], 1]]
                        t = 2e-4 if max(abs(a[2]), abs(b[2])) > 1 - 1e-7 else 1e-9
                        if not ((ref.angle(a, c) < t and ref.angle(b, d_) < t) or (ref.angle(a, d_) < t and ref.angle(b, c) < t)):
                            good = False
                            break
            ctx.check("data_attached", good and same_all_lead and bool(np.all(np.abs(vals - off - got_ids) < 1e-6)), dict(dsig, what="values name the physical elements"),
                      dict(det, first_values=row[:8].tolist()))
        except Exception as e:
            ctx.check("no_exception", False, dict(dsig, stage="data_result", exc=core.exc_sig(e)), dict(det, exc=repr(e)[:300]))


def run_case(ctx, case):
    U = ux.ux()
    m = gen.build(case["mesh"])
    if int(np.sum(np.abs(m.xyz[:, 2]) > 1 - 1.01e-8)) >= 2:
        # two or more nodes inside the library's pole-snapping band are reported at the very same point (the pole): the faces
        # between them cannot be told apart by their reported corners - restrictions of such a mesh are not judged
        ctx.observe("skipped_several_nodes_reported_at_a_pole")
        return
    factory, src_kind = make_factory(case, m)
    rng = np.random.default_rng([case["sseed"], 7])
    try:
        twin = factory()
        en = np.asarray(twin.edge_node_connectivity.values)
        elem = {
            "node": (m.xyz, np.stack([twin.node_lon.values, twin.node_lat.values], axis=1).astype(float)),
            "face": (ref.lonlat_to_xyz(twin.face_lon.values, twin.face_lat.values), np.stack([twin.face_lon.values, twin.face_lat.values], axis=1).astype(float)),
            "edge": (ref.lonlat_to_xyz(twin.edge_lon.values, twin.edge_lat.values), np.stack([twin.edge_lon.values, twin.edge_lat.values], axis=1).astype(float)),
        }
        with warnings.catch_warnings():
            warnings.simplefilter("ignore")
            src_vals = {"face_lon": np.asarray(twin.face_lon.values), "face_lat": np.asarray(twin.face_lat.values), "face_x": np.asarray(twin.face_x.values),
                        "face_areas": np.asarray(twin.face_areas.values), "n_nodes_per_face": np.asarray(twin.n_nodes_per_face.values)}
            if m.n_face <= 40:
                src_vals["bounds"] = np.asarray(twin.bounds.values)
    except Exception as e:
        ctx.check("no_exception", False, {"stage": "source", "source": src_kind, "exc": core.exc_sig(e)}, {"exc": repr(e)[:300], "mesh": case["mesh"]})
        return
    index = {}
    for fi in range(m.n_face):
        P = m.ring_pos(fi)
        index.setdefault((len(P),) + tuple(np.round(P.mean(axis=0), 5)), []).append(fi)
    warm = factory()
    warmed = warm_up(ctx, warm, rng)
    # targeted selections: elements exactly on lon = +-180 are strictly inside any antimeridian-spanning box
    targeted = []
    for el in ("node", "face", "edge"):
        LL = elem[el][1]
        on_am = np.nonzero((np.abs(np.abs(LL[:, 0]) - 180.0) < 1e-12) & (np.abs(LL[:, 1]) < 89))[0]
        if len(on_am):
            la = float(LL[on_am[int(rng.integers(0, len(on_am)))], 1])
            targeted.append({"kind": "box_am", "element": el, "lon_bounds": [round(float(rng.uniform(150, 179.9)), 3), round(float(rng.uniform(-179.9, -150)), 3)],
                             "lat_bounds": [max(-90.0, la - 7.0), min(90.0, la + 7.0)], "targeted": "element_on_antimeridian"})
            ctx.observe("targeted_box_with_element_on_antimeridian")
    nsel = case["nsel"]
    _CENTRE_ARRAYS.clear()
    for s_i in range(nsel + len(targeted)):
        # (the centre arrays handed out so far must still hold what they were given)
        for key_, arr_ in _CENTRE_ARRAYS.items():
            ctx.check("selection_arguments_unchanged", bool(np.array_equal(arr_, np.array(key_[0], dtype=float))), {"sel": key_[1], "element": key_[2]}, {"given": list(key_[0]), "now": arr_.tolist(), "mesh": case["mesh"]})
        sel = draw_selection(rng, m, elem) if s_i < nsel else targeted[s_i - nsel]
        must, may = expected(sel, m, en, elem)
        sig = {"sel": sel["kind"], "element": sel["element"], "source": src_kind, "form": sel.get("form", "")}
        det = {"selection": sel, "mesh": case["mesh"], "source": src_kind, "order": s_i + case["sseed"]}
        results = {}
        for label, g in (("fresh", factory()), ("warm", warm)):
            try:
                with warnings.catch_warnings():
                    warnings.simplefilter("ignore")
                    R = apply_selection(g, sel)
            except ValueError as e:
                if ("No " in str(e) and "found" in str(e)) :
                    ctx.check("face_set", len(must) == 0, dict(sig, why="reported empty", history=label), dict(det, n_must=len(must), exc=str(e)[:120]))
                    results[label] = "empty"
                    continue
                ctx.check("no_exception", False, dict(sig, stage="selection", history=label, exc=core.exc_sig(e)), dict(det, exc=repr(e)[:300], warmed=warmed))
                continue
            except Exception as e:
                ctx.check("no_exception", False, dict(sig, stage="selection", history=label, exc=core.exc_sig(e)), dict(det, exc=repr(e)[:300], warmed=warmed))
                continue
            mapping = validate_result(ctx, R, sel, m, index, must, may, dict(sig, history=label), dict(det, warmed=warmed if label == "warm" else []), src_vals, deep=(label == "fresh") or (s_i % 2 == 0))
            results[label] = mapping
            if mapping is not None and 0 < len(mapping) < m.n_face:
                ctx.mark_nontrivial((s_i, label))
        if "fresh" in results and "warm" in results:
            ctx.check("history_independent", results["fresh"] == results["warm"], sig, dict(det, warmed=warmed, fresh=str(results["fresh"])[:120], warm=str(results["warm"])[:120]))
        data_checks(ctx, U, factory() if s_i % 2 else warm, sel, m, en, index, rng, sig, det, must, may)
        ctx.observe("selections")
        ctx.observe("sel_" + sel["kind"])
        if ctx.observed.get("selections", 0) <= 2:
            ctx.samples.append({"mesh": case["mesh"], "source": src_kind, "selection": sel, "n_must": len(must), "n_may": len(may), "warmed": warmed})
    # thread counts of the parallel latitude scan
    if case["threads"]:
        import numba

        g = factory()
        nlat = elem["node"][1][:, 1]
        for t_i in range(3):
            lat = float(nlat[int(rng.integers(0, len(nlat)))]) if t_i == 0 else float(rng.uniform(-80, 80))
            if abs(lat) >= 90:
                continue
            sel = {"kind": "lat", "element": "face", "lat": lat}
            must, may = expected(sel, m, en, elem)
            outs = {}
            maxt = numba.config.NUMBA_NUM_THREADS
            for nt in (1, 2, 3, 4, 8, 16):
                if nt > maxt:
                    continue
                numba.set_num_threads(nt)
                try:
                    f = np.asarray(g.get_faces_at_constant_latitude(lat)).reshape(-1)
                    outs[nt] = tuple(int(x) for x in f)
                except Exception as e:
                    outs[nt] = "exc:" + core.exc_sig(e)
            numba.set_num_threads(maxt)
            vals = list(outs.values())
            same = all(v == vals[0] for v in vals)
            okset = all(isinstance(v, tuple) and must <= set(v) <= may and len(set(v)) == len(v) for v in vals)
            ctx.check("thread_independent", same and okset, {"layer": ctx.mode, "same": same, "matches_model": okset},
                      {"lat": lat, "mesh": case["mesh"], "n_edge": len(en), "by_threads": {str(k): (list(v)[:12] if isinstance(v, tuple) else v) for k, v in outs.items()}, "n_must": len(must)})
            ctx.observe("thread_sweeps")
            ctx.note_set("thread_counts_used", ",".join(str(k) for k in outs))
