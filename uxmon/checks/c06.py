"""C06 - integration is the area-weighted sum over faces."""

import numpy as np

from .. import gen, ref, ux, core

PROPERTY = "C06"
SHARDS = {"quick": 4, "thorough": 12}
RULE = (
    "cases: seeded meshes incl. grids where n_face == n_node (tetrahedron, pyramids), n_node == n_edge (single "
    "polygon) and generic ones x data rank 1..4 (element dimension last) x dtype {float64,float32,int64,bool} x all 15 "
    "(rule, order) x history (fresh grid / face_areas first / compute_face_areas with another rule first). Oracle: "
    "sum_f data[...,f]*area_f with areas from a FRESH grid of the same source and the same rule/order; linearity on "
    "(a, b, 2a-0.5b); integrate(1) == total area; node-/edge-dimensioned arrays must raise. The element kind is "
    "given by the dimension name. Non-trivial = rank >= 2, or rule != default, or a size coincidence between kinds."
)
ASSUMPTIONS = ["face areas themselves are decided by C05; here only the weighted sum, metadata and rejection are decided"]
TRI = [1, 4, 8, 10, 12]
RULES = [("triangular", o) for o in TRI] + [("gaussian", o) for o in range(1, 11)]
MIN_EVAL = {"quick": {"weighted_sum": 300, "metadata": 300, "linearity": 100, "constant_one": 100, "rejects_non_face": 200},
            "thorough": {"weighted_sum": 6000, "metadata": 6000, "linearity": 2000, "constant_one": 6000, "rejects_non_face": 12000}}
SPECIAL = [{"family": "polyhedron", "name": "tetrahedron", "ops": []}, {"family": "polyhedron", "name": "pyramid", "ops": []},
           {"family": "polyhedron", "name": "pentapyramid", "ops": []},
           {"family": "voronoi", "n": 12, "seed": 5, "ops": [["partial", [3, 0.3, "one"]]]},
           {"family": "polyhedron", "name": "cube", "ops": [["partial", [1, 0.3, "one"]]]}]


def cases(tier, seed):
    rng = np.random.default_rng([seed, 606])
    n = 480 if tier == "quick" else 60000
    for i in range(n):
        if i % 3 == 0:
            d = SPECIAL[(i // 3) % len(SPECIAL)]
        else:
            d = gen.random_mesh(rng, 80 if tier == "quick" else 600, families=gen.DEFAULT_FAMILIES + ["sample"])
        yield {"mesh": d, "dseed": int(rng.integers(0, 10**6)), "lead": [int(x) for x in rng.integers(1, 4, size=int(rng.integers(0, 4)))],
               "dtype": str(rng.choice(["float64", "float64", "float32", "int64", "bool"])), "rule": int(rng.integers(0, len(RULES))) if rng.random() < 0.6 else -1,
               "history": str(rng.choice(["fresh", "face_areas_first", "other_rule_first"])), "layout": str(rng.choice(["C", "C", "F", "T", "strided", "T_via_transpose"])), "backend": str(rng.choice(["numpy", "numpy", "numpy", "dask_data", "dask_grid", "dask_both"]))}


def run_case(ctx, case):
    U = ux.ux()
    d = case["mesh"]
    m = gen.build(d)
    g = ux.grid_from_mesh(m)
    rng = np.random.default_rng(case["dseed"])
    lead = case["lead"]
    ldims = ["d%d" % i for i in range(len(lead))]
    rule = RULES[case["rule"]] if case["rule"] >= 0 else None
    n_edge = len(ref.edge_set(m.faces))
    coincide = m.n_face in (m.n_node, n_edge) or m.n_node == n_edge
    if case["history"] == "face_areas_first":
        g.face_areas
    elif case["history"] == "other_rule_first":
        g.compute_face_areas("gaussian", 2)
    fresh = ux.grid_from_mesh(m)
    areas = np.array(fresh.compute_face_areas(*rule)[0] if rule else fresh.compute_face_areas()[0], dtype=float)
    kw = {"quadrature_rule": rule[0], "order": rule[1]} if rule else {}
    sig = {"dtype": case["dtype"], "rank": len(lead) + 1, "rule": "default" if rule is None else "%s-%d" % rule, "history": case["history"], "with_nan": bool(case["dtype"].startswith("float") and case["dseed"] % 5 == 0)}

    def mk(shape):
        if case["dtype"] == "bool":
            return rng.random(shape) < 0.5
        if case["dtype"] == "int64":
            return rng.integers(-5, 6, size=shape).astype(np.int64)
        return rng.normal(size=shape).astype(case["dtype"])

    a = mk(tuple(lead) + (m.n_face,))
    with_nan = case["dtype"].startswith("float") and case["dseed"] % 5 == 0
    if with_nan:
        # missing values: the integral over a region with a missing face value is missing (NaN), never a finite number
        a[..., rng.integers(0, m.n_face)] = np.nan
        ctx.observe("data_with_nan")
    # memory layout of the data: C order, Fortran order, a transposed view of face-major storage (model output is often
    # written (n_face, lev, time) and transposed), a strided view
    layout = case.get("layout", "C")
    if layout == "F":
        stored = np.asfortranarray(a)
    elif layout == "T":
        stored = np.ascontiguousarray(a.T).T
    elif layout == "strided" and a.ndim >= 1:
        wide = np.zeros(a.shape[:-1] + (2 * a.shape[-1],), dtype=a.dtype)
        wide[..., ::2] = a
        stored = wide[..., ::2]
    else:
        stored = a.copy()
    sig["layout"] = layout
    ctx.observe("layout_" + layout)
    uda = U.UxDataArray(stored, dims=ldims + ["n_face"], uxgrid=g, name="psi")
    if layout == "T_via_transpose" and lead:
        uda = U.UxDataArray(np.ascontiguousarray(a.T), dims=(ldims + ["n_face"])[::-1], uxgrid=g, name="psi").transpose(*(ldims + ["n_face"]))
    backend = case.get("backend", "numpy")
    if backend in ("dask_grid", "dask_both"):
        g.chunk()
    if backend in ("dask_data", "dask_both"):
        uda = uda.chunk({"n_face": max(1, m.n_face // 3)})
    sig["backend"] = backend
    ctx.observe("backend_" + backend)
    try:
        r = uda.integrate(**kw)
    except Exception as e:
        ctx.check("no_exception", False, dict(sig, exc=core.exc_sig(e)), {"exc": repr(e), "mesh": d})
        r = None
    if r is not None:
        ctx.check("no_exception", True)
        want = np.tensordot(a.astype(float), areas, axes=([-1], [0]))
        got = np.asarray(r.values, dtype=float)
        tol = 1e-12 if case["dtype"] != "float32" else 1e-6
        ok = got.shape == want.shape and np.allclose(got, want, rtol=tol, atol=tol * float(np.sum(areas)), equal_nan=True)
        ctx.check("weighted_sum", ok, sig, {"got": np.ravel(got)[:4].tolist(), "want": np.ravel(want)[:4].tolist(), "mesh": d})
        ok = isinstance(r, U.UxDataArray) and tuple(r.dims) == tuple(ldims) and r.name == "psi" and r.uxgrid is g
        ctx.check("metadata", ok, sig, {"type": type(r).__name__, "dims": list(r.dims), "name": r.name, "same_grid": r.uxgrid is g})
        # linearity (float data)
        if case["dtype"].startswith("float64") and not with_nan:
            b = mk(tuple(lead) + (m.n_face,))
            c = 2.0 * a - 0.5 * b
            try:
                ib = U.UxDataArray(b, dims=ldims + ["n_face"], uxgrid=g, name="psi").integrate(**kw)
                ic = U.UxDataArray(c, dims=ldims + ["n_face"], uxgrid=g, name="psi").integrate(**kw)
                lin = 2.0 * got - 0.5 * np.asarray(ib.values)
                scale = float(np.sum(areas)) * 10
                ctx.check("linearity", np.allclose(np.asarray(ic.values), lin, rtol=1e-10, atol=1e-12 * scale), sig, {"mesh": d})
            except Exception as e:
                ctx.check("no_exception", False, dict(sig, stage="linearity", exc=core.exc_sig(e)), {"exc": repr(e)})
    # constant one -> total area
    try:
        one = U.UxDataArray(np.ones(m.n_face), dims=["n_face"], uxgrid=g, name="one").integrate(**kw)
        tot = g.calculate_total_face_area(*rule) if rule else g.calculate_total_face_area()
        ok = np.ndim(one.values) == 0 and abs(float(one.values) - float(tot)) <= 1e-13 * float(tot) and abs(float(tot) - float(areas.sum())) <= 1e-13 * float(tot)
        ctx.check("constant_one", ok, sig, {"integral": float(one.values), "total": float(tot), "sum_areas": float(areas.sum())})
    except Exception as e:
        ctx.check("no_exception", False, dict(sig, stage="constant_one", exc=core.exc_sig(e)), {"exc": repr(e)})
    # node / edge arrays must be rejected
    for kind, n in (("n_node", m.n_node), ("n_edge", n_edge)):
        arr = U.UxDataArray(rng.normal(size=tuple(lead) + (n,)), dims=ldims + [kind], uxgrid=g, name="w")
        s2 = {"kind": kind, "size_coincides_with_n_face": n == m.n_face}
        try:
            rr = arr.integrate(**kw)
            ctx.check("rejects_non_face", False, s2, {"returned": repr(np.asarray(rr.values))[:80], "mesh": d, "n_face": m.n_face, "n": n})
        except ValueError:
            ctx.check("rejects_non_face", True, s2)
        except Exception as e:
            ctx.check("rejects_non_face", False, dict(s2, exc=core.exc_sig(e)), {"exc": repr(e)})
    # ... also when stored element-first with a trailing dimension that happens to have n_face entries (levels, members)
    for kind, n in (("n_node", m.n_node), ("n_edge", n_edge)):
        for dims_, shp in (([kind, "lev"], (n, m.n_face)), (["t", kind, "lev"], (2, n, m.n_face))):
            if n * m.n_face > 400000:
                continue
            arr = U.UxDataArray(rng.normal(size=shp), dims=dims_, uxgrid=g, name="w")
            s2 = {"kind": kind, "layout": "element_first_trailing_size_n_face", "rank": len(shp)}
            try:
                rr = arr.integrate(**kw)
                ctx.check("rejects_non_face", False, s2, {"returned_dims": list(getattr(rr, "dims", [])), "mesh": d, "n_face": m.n_face, "n": n})
            except ValueError:
                ctx.check("rejects_non_face", True, s2)
            except Exception as e:
                ctx.check("rejects_non_face", False, dict(s2, exc=core.exc_sig(e)), {"exc": repr(e)})
    if lead or rule is not None or coincide:
        ctx.mark_nontrivial()
    ctx.observe("meshes")
    if m.n_face == m.n_node:
        ctx.observe("n_face_eq_n_node")
    if m.n_face == n_edge:
        ctx.observe("n_face_eq_n_edge")
    if m.n_node == n_edge:
        ctx.observe("n_node_eq_n_edge")
    ctx.observe("rank_%d" % (len(lead) + 1))
    ctx.observe("dtype_" + case["dtype"])
    ctx.observe("history_" + case["history"])
    ctx.sample({"mesh": d, "stats": ux.mesh_stats(m), "n_edge": n_edge, "lead": lead, "dtype": case["dtype"], "rule": sig["rule"], "history": case["history"]})
