"""C19 - a grid shares no mutable state with its inputs, copies or exports."""

import copy
import hashlib
import warnings

import numpy as np

from .. import gen, ref, ux, core, dialects

PROPERTY = "C19"
SHARDS = {"quick": 6, "thorough": 16}
RULE = (
    "cases per mesh: (a) inputs - every constructor (from_topology with int32/int64/float tables, declared fill -1 / standard, index "
    "base 0/1, longitudes in 0..360, optional edge tables, lists and arrays, arrays in C/F/strided layout, a read-only variant; "
    "from_face_vertices with arrays and nested lists; from_dataset / open_grid on in-memory UGRID, MPAS, SCRIP, Exodus, ESMF, ICON "
    "datasets with attribute dictionaries) is run, then ~20 lazily derived properties are read, then the inputs are compared bit for bit "
    "(values, dtypes, attrs, variable sets) with a deep copy taken before; (b) copies - g and g.copy() are observed through a fixed set of "
    "18 reports, one side is modified through a public mutator (property setters, construct_face_centers x2 methods, "
    "normalize_cartesian_coordinates, chunk, lazy derivation) and the other side must report exactly what it reported before, in both "
    "directions; (c) exports - datasets (ugrid/exodus/scrip), GeoDataFrames (both engines), PolyCollections and LineCollections are "
    "edited by the caller (values in place, attrs, added/dropped variables, columns, rows, vertices) and the grid must report the same "
    "18 observations and produce the same exports as a fresh grid. Non-trivial = every case (each applies at least one mutation)."
)
ASSUMPTIONS = [
    "a constructor that raises because it tried to write into a read-only input is reported as an in-place write (the write is the violation)",
    "exports of a fresh grid of the same source are the reference for re-exports",
]
MIN_EVAL = {"quick": {"inputs_unmodified": 300, "copy_independent": 300, "export_independent": 300},
            "thorough": {"inputs_unmodified": 7000, "copy_independent": 7000, "export_independent": 7000}}

TOUCH = ["node_lon", "node_lat", "node_x", "node_y", "node_z", "face_lon", "face_lat", "face_x", "edge_lon", "edge_x", "edge_node_connectivity", "face_edge_connectivity",
         "node_face_connectivity", "edge_face_connectivity", "face_face_connectivity", "n_nodes_per_face", "face_areas", "edge_node_distances", "edge_face_distances", "hole_edge_indices"]
OBSERVE = ["node_lon", "node_lat", "node_x", "node_y", "node_z", "face_node_connectivity", "face_lon", "face_lat", "face_x", "face_y", "face_z", "edge_node_connectivity",
           "edge_lon", "edge_lat", "n_nodes_per_face", "face_areas", "n_face", "n_node"]


def cases(tier, seed):
    rng = np.random.default_rng([seed, 1919])
    n = 140 if tier == "quick" else 12000
    for i in range(n):
        yield {"mesh": gen.random_mesh(rng, 40 if tier == "quick" else 120, families=gen.DEFAULT_FAMILIES + ["sample"]), "part": ["inputs", "copy", "export"][i % 3], "seed": int(rng.integers(0, 10**6))}


# ------------------------------------------------------------------ digests
def _h(b):
    return hashlib.sha1(b).hexdigest()[:16]


def dig(x):
    """Deep structural digest of an input / observation."""
    import xarray as xr

    if isinstance(x, xr.Dataset):
        return {"vars": {k: dig(x[k]) for k in sorted(x.variables)}, "attrs": dig(dict(x.attrs)), "dims": {k: int(v) for k, v in x.sizes.items()}}
    if isinstance(x, xr.DataArray):
        v = np.asarray(x.values)
        return {"dims": list(x.dims), "dtype": str(v.dtype), "shape": list(v.shape), "hash": _h(np.ascontiguousarray(v).tobytes()), "attrs": dig({k: a for k, a in x.attrs.items()})}
    if isinstance(x, np.ndarray):
        return {"dtype": str(x.dtype), "shape": list(x.shape), "hash": _h(np.ascontiguousarray(x).tobytes())}
    if isinstance(x, dict):
        return {str(k): dig(v) for k, v in sorted(x.items(), key=lambda kv: str(kv[0]))}
    if isinstance(x, (list, tuple)):
        return [dig(v) for v in x]
    if isinstance(x, (np.integer, np.floating, np.bool_)):
        return repr(x.item())
    if isinstance(x, (int, float, str, bool)) or x is None:
        return repr(x)
    return "<%s>" % type(x).__name__


def observe(g):
    out = {}
    with warnings.catch_warnings():
        warnings.simplefilter("ignore")
        for name in OBSERVE:
            try:
                v = getattr(g, name)
                out[name] = dig(np.asarray(v.values)) if hasattr(v, "values") else repr(v)
            except Exception as e:
                out[name] = "exc:" + type(e).__name__
    return out


def diff_keys(a, b):
    return sorted(k for k in set(a) | set(b) if a.get(k) != b.get(k))


def touch_all(g):
    with warnings.catch_warnings():
        warnings.simplefilter("ignore")
        for name in TOUCH:
            try:
                getattr(g, name)
            except Exception:
                pass


# ------------------------------------------------------------------ (a) inputs
def input_variants(m, rng):
    """yield (label, build(), inputs) - build constructs the grid from `inputs` (a dict of named input objects)."""
    U = ux.ux()
    lon, lat = m.lonlat()
    lon = np.array(lon)
    lat = np.array(lat)
    # explicit topology
    dt = [np.int32, np.int64, np.float64][int(rng.integers(0, 3))]
    fill = [-1, ux.INT_FILL, 999999][int(rng.integers(0, 3))]
    if dt is np.int32 and fill == ux.INT_FILL:
        fill = -1
    start = int(rng.integers(0, 2))
    conn = m.padded(fill=0).astype(np.int64)
    mask = m.padded() == ux.INT_FILL
    conn = conn + start
    conn[mask] = fill
    conn = conn.astype(dt)
    layout = ux.LAYOUTS[int(rng.integers(0, 4))]
    lon360 = bool(rng.random() < 0.5)
    inp = {"node_lon": ux.with_layout(np.mod(lon, 360.0) if lon360 else lon, "strided" if layout == "strided" else "C"), "node_lat": lat.copy(), "face_node_connectivity": ux.with_layout(conn, layout)}
    extra = {}
    if rng.random() < 0.5:
        edges = sorted(ref.edge_set(m.faces), key=lambda e: sorted(e))
        extra["edge_node_connectivity"] = (np.array([sorted(e) for e in edges], dtype=np.int64) + start).astype(dt if dt is not np.float64 else np.int64)
    inp.update(extra)
    readonly = bool(rng.random() < 0.3)
    if readonly:
        for v in inp.values():
            v.flags.writeable = False

    def b_topo():
        return U.Grid.from_topology(inp["node_lon"], inp["node_lat"], inp["face_node_connectivity"], fill_value=fill, start_index=start,
                                    **{k: inp[k] for k in extra})

    yield ("from_topology", {"dtype": np.dtype(dt).name, "fill": "standard" if fill == ux.INT_FILL else str(fill), "start_index": start, "layout": layout, "lon360": lon360, "readonly": readonly, "container": "ndarray"}, b_topo, inp)
    # lists
    linp = {"node_lon": [float(x) for x in (np.mod(lon, 360.0) if lon360 else lon)], "node_lat": [float(x) for x in lat], "face_node_connectivity": [[int(v) for v in row] for row in conn.astype(np.int64)]}

    def b_list():
        return U.Grid.from_topology(linp["node_lon"], linp["node_lat"], linp["face_node_connectivity"], fill_value=fill, start_index=start)

    yield ("from_topology", {"container": "list", "fill": "standard" if fill == ux.INT_FILL else str(fill), "start_index": start, "lon360": lon360, "readonly": False}, b_list, linp)
    # face vertices
    src, info = dialects.face_vertices(m, rng)
    fv = {"face_vertices": src}
    latlon = info["dial"].get("latlon", True)
    yield ("from_face_vertices", {"container": type(src).__name__, "latlon": latlon, "readonly": False}, lambda: U.Grid.from_face_vertices(fv["face_vertices"], latlon=latlon), fv)
    # datasets
    for fmt in ("ugrid", "mpas", "scrip", "exodus", "esmf", "icon"):
        if fmt in ("mpas", "icon") and not ref.is_manifold(m.faces):
            continue
        if fmt == "icon" and any(len(f) != 3 for f in m.faces):
            continue
        try:
            ds, dinfo = getattr(dialects, fmt + "_dataset")(m, rng)
        except Exception:
            continue
        ds.attrs["user_note"] = "  keep me   "  # blank-padded on purpose
        for vn in list(ds.data_vars)[:2]:
            ds[vn].attrs["long_name"] = " padded name  "
        dsin = {"dataset": ds}
        api = ["from_dataset", "open_grid"][int(rng.integers(0, 2))]
        yield (api, {"format": fmt, "container": "dataset", "readonly": False}, (lambda d=dsin, a=api: U.Grid.from_dataset(d["dataset"]) if a == "from_dataset" else U.open_grid(d["dataset"])), dsin)


def part_inputs(ctx, case, m, rng):
    for api, sig, build, inputs in input_variants(m, rng):
        before = dig(copy.deepcopy(inputs)) if not sig.get("readonly") else dig(inputs)
        sig = dict(sig, api=api)
        try:
            with warnings.catch_warnings():
                warnings.simplefilter("ignore")
                g = build()
        except ValueError as e:
            if "read-only" in str(e):
                ctx.check("inputs_unmodified", False, dict(sig, stage="construct", why="write into read-only input"), {"exc": repr(e)[:200], "where": core.exc_sig(e), "mesh": case["mesh"]})
            else:
                ctx.observe("constructor_rejected:%s:%s" % (api, core.exc_sig(e)))
            continue
        except Exception as e:
            ctx.observe("constructor_rejected:%s:%s" % (api, core.exc_sig(e)))
            continue
        after = dig(inputs)
        ctx.check("inputs_unmodified", after == before, dict(sig, stage="construct"), {"changed": _changed(before, after), "mesh": case["mesh"]})
        try:
            touch_all(g)
        except ValueError as e:
            if "read-only" in str(e):
                ctx.check("inputs_unmodified", False, dict(sig, stage="derive", why="write into read-only input"), {"exc": repr(e)[:200], "where": core.exc_sig(e), "mesh": case["mesh"]})
                continue
        after2 = dig(inputs)
        ctx.check("inputs_unmodified", after2 == before, dict(sig, stage="derive"), {"changed": _changed(before, after2), "mesh": case["mesh"]})
        ctx.observe("inputs_" + api + "_" + str(sig.get("format", sig.get("container"))))
    ctx.mark_nontrivial()


def _changed(a, b, path=""):
    """paths where two digests differ (short list)"""
    out = []
    if isinstance(a, dict) and isinstance(b, dict):
        for k in sorted(set(a) | set(b)):
            if a.get(k) != b.get(k):
                out += _changed(a.get(k), b.get(k), path + "/" + str(k))
    elif isinstance(a, list) and isinstance(b, list) and len(a) == len(b):
        for i, (x, y) in enumerate(zip(a, b)):
            if x != y:
                out += _changed(x, y, path + "/%d" % i)
    elif a != b:
        out.append(path)
    return out[:8]


# ------------------------------------------------------------------ (b) copies
def mutators():
    import xarray as xr

    def set_node_lon(g):
        g.node_lon = xr.DataArray(np.asarray(g.node_lon.values) * 0.5, dims=g.node_lon.dims, attrs=g.node_lon.attrs)

    def set_face_lon(g):
        g.face_lon = xr.DataArray(np.zeros(g.n_face), dims=["n_face"])

    def set_conn(g):
        v = np.array(g.face_node_connectivity.values)
        v[0, :2] = v[0, 1::-1]
        g.face_node_connectivity = xr.DataArray(v, dims=g.face_node_connectivity.dims, attrs=g.face_node_connectivity.attrs)

    def set_node_x(g):
        g.node_x = xr.DataArray(np.asarray(g.node_x.values) + 1.0, dims=g.node_x.dims)

    def set_areas(g):
        g.face_areas = xr.DataArray(np.full(g.n_face, 9.0), dims=["n_face"])

    return {
        "setter_node_lon": set_node_lon, "setter_face_lon": set_face_lon, "setter_face_node_connectivity": set_conn, "setter_node_x": set_node_x, "setter_face_areas": set_areas,
        "construct_face_centers_welzl": lambda g: g.construct_face_centers(method="welzl"),
        "construct_face_centers_average": lambda g: g.construct_face_centers(method="cartesian average"),
        "normalize_cartesian_coordinates": lambda g: g.normalize_cartesian_coordinates(),
        "chunk": lambda g: g.chunk(n_node=2, n_face=2, n_edge=2),
        "lazy_derivation": touch_all,
    }


def build_for_copy(m, rng):
    """Grid with file-style face centres that differ from the corner mean and non-unit xyz, so that every mutator changes something."""
    U = ux.ux()
    lon, lat = m.lonlat()
    C = ref.unit(dialects.face_centres(m) + 0.03 * rng.normal(size=(m.n_face, 3)))
    cl, ca = ref.xyz_to_lonlat(C)
    R = 6371.0
    return U.Grid.from_topology(np.array(lon), np.array(lat), m.padded(), fill_value=ux.INT_FILL, face_lon=np.array(cl), face_lat=np.array(ca),
                                node_x=m.xyz[:, 0] * R, node_y=m.xyz[:, 1] * R, node_z=m.xyz[:, 2] * R)


def part_copy(ctx, case, m, rng):
    M = mutators()
    names = sorted(M)
    for direction in ("mutate_original_observe_copy", "mutate_copy_observe_original"):
        for nm in names:
            try:
                g = build_for_copy(m, rng)
                if rng.random() < 0.5:
                    touch_all(g)
                c = g.copy()
            except Exception as e:
                ctx.check("no_exception", False, {"stage": "copy", "exc": core.exc_sig(e)}, {"exc": repr(e)[:200], "mesh": case["mesh"]})
                return
            mut, obs = (g, c) if direction.startswith("mutate_original") else (c, g)
            before = observe(obs)
            try:
                with warnings.catch_warnings():
                    warnings.simplefilter("ignore")
                    M[nm](mut)
            except Exception as e:
                ctx.observe("mutator_raised:%s:%s" % (nm, core.exc_sig(e)))
                continue
            after = observe(obs)
            ctx.check("copy_independent", after == before, {"mutator": nm, "direction": direction}, {"changed_reports": diff_keys(before, after), "mesh": case["mesh"]})
            ctx.observe("mutator_" + nm)
    # geometry caches: modify one side, export it, then export the other side - it must still give its own geometry
    import xarray as xr

    for direction in ("modify_copy", "modify_original"):
        for ename in ("to_linecollection", "to_polycollection", "to_geodataframe_spatialpandas"):
            try:
                g = build_for_copy(m, rng)
                ref_digest = export_digest(exports(build_for_copy(m, np.random.default_rng(0)) if False else g.copy())[ename]())
                g = build_for_copy(m, np.random.default_rng(case["seed"]))
                twin = build_for_copy(m, np.random.default_rng(case["seed"]))
                ref_digest = export_digest(exports(twin)[ename]())
                c = g.copy()
                mut, other = (c, g) if direction == "modify_copy" else (g, c)
                mut.node_lon = xr.DataArray(np.asarray(mut.node_lon.values) * 0.5 + 3.0, dims=mut.node_lon.dims, attrs=mut.node_lon.attrs)
                with warnings.catch_warnings():
                    warnings.simplefilter("ignore")
                    exports(mut)[ename]()
                    got = export_digest(exports(other)[ename]())
            except Exception as e:
                ctx.observe("copy_export_raised:%s:%s" % (ename, core.exc_sig(e)))
                continue
            ctx.check("copy_independent", got == ref_digest, {"mutator": "setter_node_lon+export", "direction": direction, "export": ename},
                      {"mesh": case["mesh"], "changed": _changed(ref_digest, got) if isinstance(got, (dict, list)) else None})
    ctx.mark_nontrivial()


# ------------------------------------------------------------------ (c) exports
def export_digest(obj):
    """digest of an exported object (dataset / dataframe / collection)"""
    import xarray as xr

    if isinstance(obj, xr.Dataset):
        # the Exodus bookkeeping variables carry the wall-clock time of the export
        return dig(obj.drop_vars([v for v in ("qa_records", "time_whole") if v in obj.variables]))
    if hasattr(obj, "get_paths"):  # matplotlib collection
        return [dig(np.asarray(p.vertices)) for p in obj.get_paths()]
    if hasattr(obj, "columns"):
        cols = sorted(map(str, obj.columns))
        geo = obj["geometry"]
        try:
            import shapely

            wkb = [shapely.to_wkb(gm) for gm in geo.values] if hasattr(geo.values[0], "wkb") else None
        except Exception:
            wkb = None
        if wkb is None:
            try:
                wkb = [repr(np.asarray(gm.buffer_values).tolist()) if hasattr(gm, "buffer_values") else repr(gm) for gm in geo.values]
            except Exception:
                wkb = [repr(x) for x in geo.values]
        return {"columns": cols, "n": len(obj), "geom": _h(repr(wkb).encode())}
    return repr(obj)


def exports(g):
    """name -> callable producing the export"""
    return {
        "to_xarray_ugrid": lambda: g.to_xarray("ugrid"),
        "to_xarray_exodus": lambda: g.to_xarray("exodus"),
        "to_xarray_scrip": lambda: g.to_xarray("scrip"),
        "to_geodataframe_spatialpandas": lambda: g.to_geodataframe(periodic_elements="exclude"),
        "to_geodataframe_geopandas": lambda: g.to_geodataframe(periodic_elements="ignore", engine="geopandas"),
        "to_polycollection": lambda: g.to_polycollection(periodic_elements="exclude"),
        "to_linecollection": lambda: g.to_linecollection(periodic_elements="exclude"),
        # (projections whose central longitude is not zero: the node longitudes are re-centred for the export)
        "projected:to_polycollection": lambda: g.to_polycollection(periodic_elements="exclude", projection=_proj("Robinson", 90)),
        "projected:to_linecollection": lambda: g.to_linecollection(periodic_elements="exclude", projection=_proj("Mollweide", -60)),
    }


def _proj(name, lon0):
    import cartopy.crs as ccrs

    return getattr(ccrs, name)(central_longitude=lon0)


def edit_export(name, obj, rng):
    """in-place edits a caller may apply; returns a list of edit labels applied"""
    import xarray as xr

    done = []
    if isinstance(obj, xr.Dataset):
        for v in list(obj.variables)[:]:
            arr = obj[v].values
            if arr.dtype.kind in "fi" and arr.size and arr.flags.writeable:
                arr[...] = arr + 1 if arr.dtype.kind == "i" else arr * 0.5 + 1.0
                if "values_in_place" not in done:
                    done.append("values_in_place")
        for v in list(obj.data_vars)[:2]:
            obj[v].attrs["edited_by_caller"] = 1
            obj[v].attrs.pop("cf_role", None)
        obj.attrs["edited_by_caller"] = "yes"
        done.append("attrs")
        obj["added_by_caller"] = xr.DataArray(np.arange(3), dims=["caller_dim"])
        done.append("add_variable")
        return done
    if hasattr(obj, "set_verts"):
        obj.set_verts([np.array([[0.0, 0.0], [1.0, 0.0], [0.0, 1.0]])])
        done.append("set_verts")
        return done
    if hasattr(obj, "set_segments"):
        obj.set_segments([np.array([[0.0, 0.0], [1.0, 1.0]])])
        done.append("set_segments")
        return done
    if hasattr(obj, "columns"):
        try:
            obj["added_by_caller"] = np.arange(len(obj))
            done.append("add_column")
        except Exception:
            pass
        try:
            obj.drop(index=obj.index[0], inplace=True)
            done.append("drop_row_in_place")
        except Exception:
            pass
    return done


def part_export(ctx, case, m, rng):
    def mk():
        g = ux.grid_from_mesh(m)
        return g

    names = sorted(exports(mk()))
    for nm in names:
        if nm == "to_xarray_exodus" and max(len(f) for f in m.faces) > 8:
            continue
        g, fresh = mk(), mk()
        warm = bool(rng.random() < 0.5)
        chunked = bool(rng.random() < 0.3)
        if chunked:
            # dask-backed grid; what is derived afterwards (the warm-up below, the observations) is numpy-backed again
            g.chunk()
            fresh.chunk()
            warm = True
            ctx.observe("export_of_chunked_grid")
        if warm:
            touch_all(g)
            touch_all(fresh)
        try:
            with warnings.catch_warnings():
                warnings.simplefilter("ignore")
                before = observe(g)
                exp = exports(g)[nm]()
                observe(fresh)  # same derived variables on both sides: an export also carries what has been derived so far
                ref_digest = export_digest(exports(fresh)[nm]())
        except Exception as e:
            ctx.observe("export_raised:%s:%s" % (nm, core.exc_sig(e)))
            continue
        edits = edit_export(nm, exp, rng)
        try:
            with warnings.catch_warnings():
                warnings.simplefilter("ignore")
                after = observe(g)
                again = export_digest(exports(g)[nm]())
        except Exception as e:
            ctx.check("export_independent", False, {"export": nm, "why": "re-export raised", "exc": core.exc_sig(e)}, {"exc": repr(e)[:200], "edits": edits, "mesh": case["mesh"]})
            continue
        ctx.check("export_independent", after == before, {"export": nm, "what": "grid reports after caller edits", "warm": warm, "chunked": chunked}, {"changed_reports": diff_keys(before, after), "edits": edits, "mesh": case["mesh"]})
        ctx.check("export_independent", again == ref_digest, {"export": nm, "what": "re-export equals a fresh grid's export", "warm": warm, "chunked": chunked}, {"edits": edits, "changed": _changed(ref_digest, again), "mesh": case["mesh"]})
        ctx.observe("export_" + nm)
    # exports of DATA on the grid: the grid's own (cached) frame and the grid's reports are what they were, whatever was cached
    # before and whatever `cache` says; a projected frame leaves the grid's longitudes alone
    try:
        U = ux.ux()
        with warnings.catch_warnings():
            warnings.simplefilter("ignore")
            gA, gB = mk(), mk()
            before = observe(gA)
            own0 = export_digest(gA.to_geodataframe(periodic_elements="exclude"))  # cached on the grid from here on
            da_v = U.UxDataArray(np.arange(m.n_face, dtype=float), dims=["n_face"], uxgrid=gA, name="v")
            da_w = U.UxDataArray(np.arange(m.n_face, dtype=float) * 2, dims=["n_face"], uxgrid=gA, name="w")
            for step, (arr, kw) in enumerate([(da_v, {"cache": False}), (da_w, {}), (da_v, {"cache": False, "projection": _proj("Robinson", 90)}), (da_w, {"cache": False})]):
                e = arr.to_geodataframe(periodic_elements="exclude", **kw)
                cols = sorted(map(str, e.columns))
                sigd = {"export": "data:to_geodataframe", "cache": kw.get("cache", True), "projected": "projection" in kw, "step": step}
                ctx.check("export_independent", cols == sorted(["geometry", arr.name]), dict(sigd, what="columns of a data export"), {"columns": cols, "mesh": case["mesh"]})
                edit_export("data", e, rng)
                own = export_digest(gA.to_geodataframe(periodic_elements="exclude"))
                ctx.check("export_independent", own == own0, dict(sigd, what="the grid's own frame after a data export"), {"changed": _changed(own0, own), "mesh": case["mesh"]})
            fresh_own = export_digest(gB.to_geodataframe(periodic_elements="exclude"))
            ctx.check("export_independent", own0 == fresh_own, {"export": "data:to_geodataframe", "what": "grid frame equals a fresh grid's"}, {"mesh": case["mesh"]})
            observe(gB)
            ctx.check("export_independent", observe(gA) == before, {"export": "data:to_geodataframe", "what": "grid reports after data exports"}, {"changed_reports": diff_keys(before, observe(gA)), "mesh": case["mesh"]})
        ctx.observe("export_data_to_geodataframe")
    except Exception as e:
        ctx.observe("data_export_raised:" + core.exc_sig(e))
    ctx.mark_nontrivial()


def run_case(ctx, case):
    m = gen.build(case["mesh"])
    rng = np.random.default_rng(case["seed"])
    {"inputs": part_inputs, "copy": part_copy, "export": part_export}[case["part"]](ctx, case, m, rng)
    ctx.sample({"mesh": case["mesh"], "part": case["part"], "seed": case["seed"]}, limit=3)
