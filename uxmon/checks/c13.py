"""C13 - face latitude-longitude bounds enclose the face and are tight."""

import math

import numpy as np

from .. import gen, ref, ux, core

PROPERTY = "C13"
SHARDS = {"quick": 8, "thorough": 16}
RULE = (
    "cases: convex faces with 3..8 corners (inscribed in small circles of radius 0.5..60 deg with jittered corners; Voronoi / "
    "merged-Delaunay / cubed-sphere / lat-lon-patch cells) placed generically, with a pole strictly inside (off-centre), with "
    "a corner exactly at a pole (stored with any longitude), a pole inside and a corner exactly on lon=0 / lon=180, across lon=180, across lon=0, containing (lon 0, lat 0), just beside a pole, on the equator; "
    "every start corner, both traversal orientations; as single-face grids and as whole meshes; given as lon/lat topology or (one in three, and one of the two single-face grids) as Cartesian-only face vertices whose lon/lat the library derives. Oracle: analytic great-circle "
    "apex per edge (inside-arc decided by sign tests) cross-checked against 64 slerp samples per edge; shortest circular cover of "
    "the boundary longitudes; pole enclosure by edge-plane signs with a 1e-6 rad margin (cases inside the margin are dropped). "
    "Faces whose longitude extent is within 5 deg of 180 (and do not enclose a pole) are dropped. Non-trivial = special "
    "placement, or an edge whose interior apex is the face's extreme latitude."
)
ASSUMPTIONS = [
    "faces are convex with edges < 180 deg and longitude extent < 175 deg unless a pole is strictly (>= 1e-6 rad) inside",
    "tolerance 2e-8 rad for enclosure and tightness (the library snaps latitudes closer than 1e-8)",
    "full circle is reported as a longitude interval of width >= 2*pi - 1e-8",
]
MIN_EVAL = {
    "quick": {"lat_enclosed": 2500, "lat_tight": 2500, "lon_enclosed": 2500, "lon_tight": 2500, "pole_reported": 300},
    "thorough": {"lat_enclosed": 50000, "lat_tight": 50000, "lon_enclosed": 50000, "lon_tight": 50000, "pole_reported": 6000},
}
TOL = 2e-8
POLE_MARGIN = 1e-6
BAND_EXCLUDED = False


def cases(tier, seed):
    rng = np.random.default_rng([seed, 1313])
    n_single, n_mesh = (442, 30) if tier == "quick" else (51000, 2500)
    for i in range(n_single):
        placement = gen.FACE_PLACEMENTS[i % len(gen.FACE_PLACEMENTS)]
        radius = float(10 ** rng.uniform(-0.3 if i % 4 else -3.0, math.log10(60)))
        if ("pole" in placement) and (i // len(gen.FACE_PLACEMENTS)) % 3 == 0:
            radius = float(rng.uniform(45.0, 84.0))  # very coarse meshes: a face that holds a pole and reaches across the equator
        yield {"kind": "single", "k": int(rng.integers(3, 9)), "radius": radius,
               "fseed": int(rng.integers(0, 10**6)), "placement": placement,
               "pseed": int(rng.integers(0, 10**6))}
    for i in range(n_mesh):
        yield {"kind": "mesh", "mesh": gen.random_mesh(rng, 60 if tier == "quick" else 250, families=["voronoi", "merged", "cubed_sphere", "latlon_patch", "polyhedron", "fine_patch", "sample"])}


# ---------------------------------------------------------------- oracle
def true_bounds(P):
    """P (k,3) convex ring (either orientation).  Returns dict or None when the face is outside the
    property's domain / inside a margin."""
    k = len(P)
    orient = 1.0 if np.dot(np.cross(P[0], P[1]), P[2 % k]) > 0 else -1.0
    if k == 3 and orient < 0:
        pass
    Pc = P if orient > 0 else P[::-1]
    if not ref.is_convex_ccw_rel(Pc, 1e-6):
        return None
    zhat = np.array([0.0, 0.0, 1.0])
    corner_pole = [i for i in range(k) if abs(P[i, 2]) == 1.0]
    if BAND_EXCLUDED and any(1 - 1e-7 < abs(P[i, 2]) < 1.0 for i in range(k)):
        return None  # inside the library's pole-snap band: not generated on purpose
    # pole enclosure (edge-plane signs, angular margins)
    pole = None
    for name, pv in (("N", zhat), ("S", -zhat)):
        d = []
        for i in range(k):
            n = np.cross(Pc[i], Pc[(i + 1) % k])
            n = n / np.linalg.norm(n)
            d.append(math.asin(max(-1.0, min(1.0, float(np.dot(n, pv))))))
        if any(abs(Pc[i, 2]) == 1.0 and Pc[i, 2] * pv[2] > 0 for i in range(k)):
            continue  # pole is a corner: on the boundary, handled below
        if min(d) >= POLE_MARGIN:
            pole = name
        elif min(d) > -POLE_MARGIN:
            return None  # pole within the margin of the boundary: don't care
    lats, samples = [], []
    apex_extreme = {"max": -9.0, "min": 9.0}
    node_lat = np.arcsin(np.clip(P[:, 2], -1, 1))
    lat_max, lat_min = float(node_lat.max()), float(node_lat.min())
    bulge_max = bulge_min = False
    for i in range(k):
        a, b = P[i], P[(i + 1) % k]
        w = float(ref.angle(a, b))
        if not (1e-9 < w < math.pi - 1e-6):
            return None
        n = np.cross(a, b)
        n = n / np.linalg.norm(n)
        ap = zhat - np.dot(zhat, n) * n
        na = np.linalg.norm(ap)
        if na > 1e-12:
            ap = ap / na
            for sgn, which in ((1.0, "max"), (-1.0, "min")):
                q = sgn * ap
                inside = np.dot(np.cross(a, q), n) > 0 and np.dot(np.cross(q, b), n) > 0
                if inside:
                    la = math.atan2(q[2], math.hypot(q[0], q[1]))
                    if which == "max" and la > lat_max + 1e-12:
                        lat_max, bulge_max = la, True
                    if which == "min" and la < lat_min - 1e-12:
                        lat_min, bulge_min = la, True
        S = ref.slerp(a, b, np.linspace(0, 1, 64))
        samples.append(S)
    S = np.concatenate(samples)
    s_lat = np.arctan2(S[:, 2], np.hypot(S[:, 0], S[:, 1]))
    # the analytic extremes must dominate the samples (oracle self-check)
    if s_lat.max() > lat_max + 1e-9 or s_lat.min() < lat_min - 1e-9:
        raise AssertionError("oracle: analytic latitude range does not cover the sampled boundary")
    if pole == "N":
        lat_max = math.pi / 2
    if pole == "S":
        lat_min = -math.pi / 2
    # longitudes: boundary points that are not at a pole
    ok = np.abs(S[:, 2]) < 1.0 - 1e-12
    lons = np.mod(np.arctan2(S[ok, 1], S[ok, 0]), 2 * math.pi)
    nonpole = [i for i in range(k) if abs(P[i, 2]) != 1.0]
    c_lons = np.mod(np.arctan2(P[nonpole, 1], P[nonpole, 0]), 2 * math.pi)
    lo, hi, width = ref.lon_interval_cover(c_lons)
    lo2, hi2, width2 = ref.lon_interval_cover(lons)
    if pole is None:
        if width > math.radians(175):
            return None
        if abs(width - width2) > 1e-9:
            raise AssertionError("oracle: corner longitudes and sampled boundary longitudes disagree")
    return {"lat_min": lat_min, "lat_max": lat_max, "lon_lo": float(lo), "lon_hi": float(hi), "lon_width": float(width), "pole": pole,
            "corner_pole": bool(corner_pole), "bulge": bool(bulge_max or bulge_min), "orientation": "ccw" if orient > 0 else "cw",
            "crosses_0": bool(pole is None and lo > hi), "crosses_180": bool(pole is None and _contains(lo, hi, math.pi)),
            "contains_origin": bool(pole is None and _contains(lo, hi, 0.0) and lat_min < 0 < lat_max)}


def _contains(lo, hi, x, tol=0.0):
    """x inside the arc of longitudes running eastwards from lo to hi (all modulo 2*pi), with tolerance."""
    two_pi = 2 * math.pi
    if hi - lo >= two_pi - 1e-12:
        return True  # the full circle
    w = (hi - lo) % two_pi
    d = (x - lo) % two_pi
    return d <= w + tol or d >= two_pi - tol


def _width(lo, hi):
    return hi - lo if lo <= hi else 2 * math.pi - lo + hi


def _angdiff(a, b):
    d = abs(a - b) % (2 * math.pi)
    return min(d, 2 * math.pi - d)


def judge(ctx, got, want, sig, detail):
    (glat0, glat1), (glon0, glon1) = got
    # a bound reported as 2*pi is the meridian 0 (np.mod of a tiny negative longitude); only [0, 2*pi] means the full circle
    if not (glon0 <= 1e-12 and glon1 >= 2 * math.pi - 1e-12):
        if glon0 >= 2 * math.pi - 1e-12:
            glon0 = 0.0
        if glon1 >= 2 * math.pi - 1e-12 and glon0 > 1e-12:
            glon1 = 0.0
    finite = all(math.isfinite(v) for v in (glat0, glat1, glon0, glon1)) and glat0 > -10 and glon0 > -10
    ctx.check("well_formed", finite and -math.pi / 2 - 1e-12 <= glat0 <= glat1 <= math.pi / 2 + 1e-12 and -1e-12 <= glon0 <= 2 * math.pi + 1e-12 and -1e-12 <= glon1 <= 2 * math.pi + 1e-12,
              sig, detail)
    if not finite:
        return
    ctx.check("lat_enclosed", glat0 <= want["lat_min"] + TOL and glat1 >= want["lat_max"] - TOL, sig, detail)
    ctx.check("lat_tight", glat0 >= want["lat_min"] - TOL and glat1 <= want["lat_max"] + TOL, sig, detail)
    if want["pole"] is not None:
        full = glon0 <= glon1 and (glon1 - glon0) >= 2 * math.pi - 1e-8
        plat = glat1 if want["pole"] == "N" else glat0
        ctx.check("pole_reported", full and abs(abs(plat) - math.pi / 2) <= TOL, sig, detail)
        return
    # scale the longitude tolerance by the latitude of the extreme corners (a position error of TOL rad)
    ltol = TOL / max(math.cos(max(abs(want["lat_min"]), abs(want["lat_max"]))), 1e-3) if not want["corner_pole"] else 1e-7
    gw = _width(glon0, glon1)
    enclosed = _contains(glon0, glon1, want["lon_lo"], ltol) and _contains(glon0, glon1, want["lon_hi"], ltol) and gw >= want["lon_width"] - 2 * ltol
    ctx.check("lon_enclosed", enclosed, sig, detail)
    ctx.check("lon_tight", gw <= want["lon_width"] + 2 * ltol, sig, detail)


def face_sig(want, k, placement):
    return {"pole": want["pole"] or ("corner" if want["corner_pole"] else "none"), "crosses_0": want["crosses_0"], "crosses_180": want["crosses_180"],
            "contains_origin": want["contains_origin"], "bulge": want["bulge"], "orientation": want["orientation"], "placement": placement}


def grid_of(rings_xyz, pole_lon=None, cartesian=False):
    """rings: list of (k,3) arrays with their own nodes -> Grid via explicit topology (lon/lat input).
    pole_lon: longitude (deg) to store for corners exactly at a pole (a pole has no longitude: any value is legal input)."""
    U = ux.ux()
    if cartesian:
        # a Cartesian-only source (face-vertex constructor): the library derives the corners' lon/lat itself
        w = max(len(R) for R in rings_xyz)
        fv = np.full((len(rings_xyz), w, 3), float(ux.INT_FILL))
        for i, R in enumerate(rings_xyz):
            fv[i, : len(R)] = R
        return U.Grid.from_face_vertices(fv, latlon=False)
    pts, faces = [], []
    for R in rings_xyz:
        base = len(pts)
        pts.extend(R)
        faces.append(list(range(base, base + len(R))))
    pts = np.array(pts)
    lon, lat = ref.xyz_to_lonlat(pts)
    if pole_lon is not None:
        lon = np.where(np.abs(pts[:, 2]) == 1.0, pole_lon, lon)
    w = max(len(f) for f in faces)
    conn = np.full((len(faces), w), ux.INT_FILL, dtype=np.intp)
    for i, f in enumerate(faces):
        conn[i, : len(f)] = f
    return U.Grid.from_topology(np.array(lon), np.array(lat), conn, fill_value=ux.INT_FILL)


def get_bounds(ctx, g, sig, detail):
    import warnings

    try:
        with warnings.catch_warnings():
            warnings.simplefilter("ignore")
            with np.errstate(all="ignore"):
                return np.asarray(g.bounds.values, dtype=float)
    except Exception as e:
        ctx.check("no_exception", False, dict(sig, exc=core.exc_sig(e)), dict(detail, exc=repr(e)))
        return None


def run_case(ctx, case):
    if case["kind"] == "single":
        P0 = gen.inscribed_face(case["k"], case["radius"], case["fseed"])
        P = gen.place_face(P0, case["placement"], case["pseed"])
        k = len(P)
        variants = []
        for s in range(k):
            variants.append(("ccw", s, np.roll(P, -s, axis=0)))
        for s in range(0, k, max(1, k // 2)):
            variants.append(("cw", s, np.roll(P[::-1], -s, axis=0)))
        rings, wants, tags = [], [], []
        for orient, s, R in variants:
            w = true_bounds(R)
            if w is None:
                ctx.observe("dropped_margin_or_domain")
                continue
            rings.append(R)
            wants.append(w)
            tags.append((orient, s))
        if not rings:
            return
        detail0 = {"case": {k_: case[k_] for k_ in ("k", "radius", "fseed", "placement", "pseed")}}
        # one grid per variant (single-face grids) - and all variants together as one multi-face grid
        pole_lon = [None, -94.57186012, 137.5, 359.0 - 360.0][case["pseed"] % 4] if case["placement"].startswith("corner_") else None
        cart = case["pseed"] % 3 == 0
        if cart and np.any((np.abs(P[:, 2]) > 1 - 1.01e-8) & (np.abs(P[:, 2]) < 1.0)):
            # a corner inside the library's pole-snapping band (within 1.42e-4 rad of a pole, not at it): from a Cartesian-only source
            # it is reported AT the pole (sanctioned by C04) and the grid describes another polygon - such faces are given as lon/lat
            cart = False
            ctx.observe("corner_in_pole_snap_band_given_as_lonlat")
        lonlat_only = not cart and np.any((np.abs(P[:, 2]) > 1 - 1.01e-8) & (np.abs(P[:, 2]) < 1.0))
        ctx.observe("source_cartesian_only" if cart else "source_lonlat")
        gall = grid_of(rings, pole_lon, cart)
        ball = get_bounds(ctx, gall, {"placement": case["placement"], "stage": "multi"}, detail0)
        for i, (R, w, tag) in enumerate(zip(rings, wants, tags)):
            sig = face_sig(w, k, case["placement"])
            det = dict(detail0, start=tag[1], want={k_: w[k_] for k_ in ("lat_min", "lat_max", "lon_lo", "lon_hi", "lon_width", "pole")}, ring_lonlat=np.array(ref.xyz_to_lonlat(R)).T.tolist())
            if i < 2:
                g1 = grid_of([R], pole_lon, (cart if i == 0 else not cart) and not lonlat_only)
                b1 = get_bounds(ctx, g1, dict(sig, stage="single"), det)
                if b1 is not None:
                    judge(ctx, b1[0], w, dict(sig, grid="single"), dict(det, got=b1[0].tolist()))
            if ball is not None:
                judge(ctx, ball[i], w, dict(sig, grid="multi"), dict(det, got=ball[i].tolist()))
            for key in ("crosses_0", "crosses_180", "contains_origin", "bulge", "corner_pole"):
                if w[key]:
                    ctx.observe("face_" + key)
            ctx.observe("face_pole_" + str(w["pole"]))
            ctx.observe("face_orientation_" + w["orientation"])
            ctx.observe("faces")
            if case["placement"] != "generic" or w["bulge"]:
                ctx.mark_nontrivial((tag, i))
        ctx.sample({"case": detail0["case"], "ring_lonlat_deg": np.array(ref.xyz_to_lonlat(rings[0])).T.round(6).tolist(), "expected": wants[0],
                    "variants": len(rings)}, limit=3)
        return
    m = gen.build(case["mesh"])
    if len(str(case["mesh"])) % 3 == 0 and not np.any((np.abs(m.xyz[:, 2]) > 1 - 1.01e-8) & (np.abs(m.xyz[:, 2]) < 1.0)):
        g = grid_of([m.ring_pos(fi) for fi in range(m.n_face)], None, True)
        ctx.observe("source_cartesian_only")
    else:
        g = ux.grid_from_mesh(m)
    b = get_bounds(ctx, g, {"stage": "mesh"}, {"mesh": case["mesh"]})
    if b is None:
        return
    for fi in range(m.n_face):
        R = m.ring_pos(fi)
        if not (3 <= len(R) <= 8):
            continue
        w = true_bounds(R)
        if w is None:
            ctx.observe("dropped_margin_or_domain")
            continue
        sig = face_sig(w, len(R), "mesh")
        judge(ctx, b[fi], w, dict(sig, grid="mesh"), {"mesh": case["mesh"], "face": fi, "got": b[fi].tolist(),
                                                     "want": {k_: w[k_] for k_ in ("lat_min", "lat_max", "lon_lo", "lon_hi", "lon_width", "pole")}})
        ctx.observe("faces")
        ctx.observe("mesh_faces")
        for key in ("crosses_0", "crosses_180", "contains_origin", "bulge", "corner_pole"):
            if w[key]:
                ctx.observe("face_" + key)
        ctx.observe("face_pole_" + str(w["pole"]))
        if w["bulge"] or w["pole"] or w["crosses_0"] or w["crosses_180"] or w["corner_pole"]:
            ctx.mark_nontrivial(fi)
