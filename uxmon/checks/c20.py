"""C20 - grid equality distinguishes any difference in coordinates or connectivity."""

import numpy as np

from .. import gen, ref, ux, core

PROPERTY = "C20"
SHARDS = {"quick": 4, "thorough": 12}
RULE = (
    "per base mesh the complete pair space: {reflexive, copy, twin from the same source, one longitude changed, "
    "one latitude changed, two corners of one face swapped, one connectivity entry replaced, one padding entry replaced by a node (and the reverse), one extra all-padding column, one extra node, one "
    "node fewer (unused), one extra face, one face fewer, same arrays read through another format (UGRID dataset), "
    "non-Grid operands} x both operand orders x {==, !=}; plus histories: a copy (or the original) edited in place after copy() in one connectivity entry / longitude / latitude, and two grids built from the same array objects of which one gets a coordinate replaced through the node_lon / node_lat setter (the untouched grid must still equal a never-touched reference); derived quantities computed on one side only; Cartesian-only grids (face-vertex constructor) whose lon/lat are derived by reading node_lat / node_lon / face_lat / edge_lat / bounds first on one side only; dask-backed grids after Grid.chunk() (equal and single-entry-different pairs, chunked vs in-memory). Oracle: equal iff same format and identical node_lon, "
    "node_lat, face_node_connectivity. Non-trivial = a twin differing in exactly one array from the base."
)
ASSUMPTIONS = ["twins are built from independently copied arrays through Grid.from_topology / a UGRID dataset"]
MIN_EVAL = {"quick": {"eq_matches_model": 1500, "ne_is_negation": 1500, "symmetric": 700},
            "thorough": {"eq_matches_model": 20000, "ne_is_negation": 20000, "symmetric": 9000}}


def cases(tier, seed):
    rng = np.random.default_rng([seed, 2020])
    n = 80 if tier == "quick" else 10000
    for i in range(n):
        yield {"mesh": gen.random_mesh(rng, 60 if tier == "quick" else 300, families=gen.DEFAULT_FAMILIES + ["sample"]), "tseed": int(rng.integers(0, 10**6))}


def ugrid_ds(lon, lat, conn):
    import xarray as xr

    ds = xr.Dataset()
    ds["mesh"] = xr.DataArray(0, attrs={"cf_role": "mesh_topology", "topology_dimension": 2, "node_coordinates": "nlon nlat",
                                          "face_node_connectivity": "fnc"})
    ds["nlon"] = xr.DataArray(lon, dims=["nn"])
    ds["nlat"] = xr.DataArray(lat, dims=["nn"])
    ds["fnc"] = xr.DataArray(conn, dims=["nf", "nmax"], attrs={"cf_role": "face_node_connectivity", "start_index": 0, "_FillValue": ux.INT_FILL})
    return ds


def run_case(ctx, case):
    U = ux.ux()
    m = gen.build(case["mesh"])
    rng = np.random.default_rng(case["tseed"])
    lon, lat = m.lonlat()
    lon = np.array(lon)
    lat = np.array(lat)
    conn = m.padded()

    def mk(lo, la, co):
        return U.Grid.from_topology(np.array(lo), np.array(la), np.array(co), fill_value=ux.INT_FILL)

    base = mk(lon, lat, conn)
    twins = []  # (name, grid_or_obj, model_equal)
    twins.append(("reflexive", base, True))
    twins.append(("copy", base.copy(), True))
    twins.append(("same_source", mk(lon, lat, conn), True))
    i = int(rng.integers(0, len(lon)))
    l2 = lon.copy()
    l2[i] = l2[i] + (1e-9 if l2[i] < 179 else -1e-9)
    twins.append(("one_lon", mk(l2, lat, conn), False))
    l3 = lat.copy()
    l3[i] = l3[i] + (1e-9 if l3[i] < 89 else -1e-9)
    twins.append(("one_lat", mk(lon, l3, conn), False))
    c2 = conn.copy()
    f = int(rng.integers(0, len(c2)))
    c2[f, 0], c2[f, 1] = c2[f, 1], c2[f, 0]
    twins.append(("swap_in_face", mk(lon, lat, c2), False))
    if len(lon) > 3:
        c3 = conn.copy()
        k = len(m.faces[f])
        j = int(rng.integers(0, k))
        others = [v for v in range(len(lon)) if v not in m.faces[f]]
        if others:
            c3[f, j] = others[int(rng.integers(0, len(others)))]
            twins.append(("one_conn_entry", mk(lon, lat, c3), False))
    # padding <-> node: a fill entry of one face replaced by a node index (triangle -> quad), and the reverse
    sizes = [len(fc) for fc in m.faces]
    short = [fi for fi, k in enumerate(sizes) if k < conn.shape[1]]
    if short:
        fi = short[int(rng.integers(0, len(short)))]
        others = [v for v in range(len(lon)) if v not in m.faces[fi]]
        if others:
            c4 = conn.copy()
            c4[fi, sizes[fi]] = others[int(rng.integers(0, len(others)))]
            twins.append(("fill_to_node", mk(lon, lat, c4), False))
    longf = [fi for fi, k in enumerate(sizes) if k >= 4]
    if longf:
        fi = longf[int(rng.integers(0, len(longf)))]
        c5 = conn.copy()
        c5[fi, sizes[fi] - 1] = ux.INT_FILL
        twins.append(("node_to_fill", mk(lon, lat, c5), False))
    # same faces stored in a wider table (one more all-fill column): the connectivity arrays are not identical
    twins.append(("wider_padding", mk(lon, lat, m.padded(width=conn.shape[1] + 1)), None))  # same faces, other storage: either answer is admissible, only symmetry / negation are demanded
    twins.append(("extra_node", mk(np.append(lon, 12.5), np.append(lat, -3.25), conn), False))
    twins.append(("extra_face", mk(lon, lat, np.vstack([conn, conn[:1]])), False))
    if len(conn) > 1:
        twins.append(("fewer_face", mk(lon, lat, conn[:-1]), False))
    try:
        other_fmt = U.open_grid(ugrid_ds(lon.copy(), lat.copy(), conn.copy()))
        same_arrays = (np.array_equal(other_fmt.node_lon.values, base.node_lon.values)
                       and np.array_equal(other_fmt.face_node_connectivity.values, base.face_node_connectivity.values))
        if same_arrays:
            twins.append(("other_format", other_fmt, False))
    except Exception as e:
        ctx.observe("other_format_unavailable:" + core.exc_sig(e))
    import xarray as xr

    for name, obj in (("none", None), ("int", 0), ("dataset", xr.Dataset()), ("str", "grid")):
        twins.append(("nongrid_" + name, obj, False))

    for name, t, want in twins:
        sig = {"twin": name}
        orders = [(base, t, "base_first")]
        if hasattr(t, "source_grid_spec"):
            # with a non-Grid left operand the other type's __eq__ decides (xarray broadcasts);
            # the property speaks about Grid.__eq__/__ne__ only
            orders.append((t, base, "twin_first"))
        for a, b, order in orders:
            try:
                eq = a == b
                ne = a != b
            except Exception as e:
                ctx.check("no_exception", False, dict(sig, exc=core.exc_sig(e)), {"exc": repr(e)})
                continue
            if order == "twin_first" and not hasattr(t, "source_grid_spec"):
                # reflected comparison with a non-Grid left operand: Python falls back to Grid.__eq__
                pass
            if want is not None:
                ctx.check("eq_matches_model", isinstance(eq, (bool, np.bool_)) and bool(eq) == want, dict(sig, order=order),
                          {"eq": repr(eq), "want": want, "mesh": case["mesh"]})
            ctx.check("ne_is_negation", isinstance(ne, (bool, np.bool_)) and bool(ne) == (not bool(eq)), dict(sig, order=order), {"eq": repr(eq), "ne": repr(ne)})
        if hasattr(t, "source_grid_spec"):
            try:
                ctx.check("symmetric", bool(base == t) == bool(t == base), sig, None)
            except Exception:
                pass
        ctx.observe("twin_" + name)
        if name in ("one_lon", "one_lat", "swap_in_face", "one_conn_entry", "fill_to_node", "node_to_fill"):
            ctx.mark_nontrivial(name)
    # ---- histories: grids that were equal and then had ONE entry changed through the grid's own arrays / setters.
    # reference = a grid built from independently copied arrays, never touched
    import xarray as xr

    def judge(name, a, b, want, extra=None):
        sig = dict({"history": name}, **(extra or {}))
        try:
            eq, ne = a == b, a != b
        except Exception as e:
            ctx.check("no_exception", False, dict(sig, exc=core.exc_sig(e)), {"exc": repr(e)})
            return
        ctx.check("eq_matches_model", isinstance(eq, (bool, np.bool_)) and bool(eq) == want, sig, {"eq": repr(eq), "want": want, "mesh": case["mesh"]})
        ctx.check("ne_is_negation", isinstance(ne, (bool, np.bool_)) and bool(ne) == (not bool(eq)), sig, {"eq": repr(eq), "ne": repr(ne)})
        try:
            ctx.check("symmetric", bool(b == a) == bool(eq), sig, None)
        except Exception:
            pass

    reference = mk(lon, lat, conn)
    f = int(rng.integers(0, len(conn)))
    # (1) copy, then one connectivity entry / one longitude / one latitude of the COPY edited in place
    for what in ("connectivity", "node_lon", "node_lat"):
        orig = mk(lon, lat, conn)
        dup = orig.copy()
        try:
            if what == "connectivity":
                v = dup.face_node_connectivity.values
                v[f, 0], v[f, 1] = v[f, 1], v[f, 0]
            else:
                v = getattr(dup, what).values
                v[i] = v[i] + (0.001 if v[i] < 80 else -0.001)
        except Exception as e:
            ctx.check("no_exception", False, {"history": "edit_copy_" + what, "exc": core.exc_sig(e)}, {"exc": repr(e)})
            continue
        judge("copy_then_edit_copy_in_place", orig, dup, False, {"what": what})
        judge("copy_then_edit_copy_in_place:original_vs_reference", orig, reference, True, {"what": what})
        # and the other way round: the ORIGINAL edited after the copy was taken
        orig2 = mk(lon, lat, conn)
        dup2 = orig2.copy()
        if what == "connectivity":
            v = orig2.face_node_connectivity.values
            v[f, 0], v[f, 1] = v[f, 1], v[f, 0]
        else:
            v = getattr(orig2, what).values
            v[i] = v[i] + (0.001 if v[i] < 80 else -0.001)
        judge("copy_then_edit_original_in_place", orig2, dup2, False, {"what": what})
        judge("copy_then_edit_original_in_place:copy_vs_reference", dup2, reference, True, {"what": what})
    # (2) two grids built from the SAME coordinate array objects; one coordinate of the second replaced through the setter
    for what in ("node_lon", "node_lat"):
        A_lon, A_lat, A_conn = np.array(lon), np.array(lat), np.array(conn)
        first = U.Grid.from_topology(A_lon, A_lat, A_conn, fill_value=ux.INT_FILL)
        second = U.Grid.from_topology(A_lon, A_lat, A_conn, fill_value=ux.INT_FILL)
        judge("same_arrays_two_grids", first, second, True, {"what": what})
        nv = np.array(getattr(second, what).values, dtype=float)
        nv[i] = nv[i] + (0.001 if nv[i] < 80 else -0.001)
        try:
            setattr(second, what, xr.DataArray(nv, dims=getattr(second, what).dims, attrs=getattr(second, what).attrs))
        except Exception as e:
            ctx.check("no_exception", False, {"history": "setter_" + what, "exc": core.exc_sig(e)}, {"exc": repr(e)})
            continue
        judge("same_arrays_then_setter_on_second", first, second, False, {"what": what})
        judge("same_arrays_then_setter_on_second:first_vs_reference", first, reference, True, {"what": what})
        third = second.copy()
        judge("same_arrays_then_setter_on_second:copy_of_second", second, third, True, {"what": what})
    # (2b) coordinate arrays of different precision: longitudes single, latitudes double (a file with float32 lon and a computed lat);
    # one latitude differs by less than single precision resolves
    try:
        lon32 = np.asarray(lon, dtype=np.float32)
        la_b = lat.copy()
        la_b[i] = la_b[i] + (1e-9 if la_b[i] < 89 else -1e-9)
        A32 = U.Grid.from_topology(lon32.copy(), lat.copy(), conn.copy(), fill_value=ux.INT_FILL)
        B32 = U.Grid.from_topology(lon32.copy(), la_b, conn.copy(), fill_value=ux.INT_FILL)
        C32 = U.Grid.from_topology(lon32.copy(), lat.copy(), conn.copy(), fill_value=ux.INT_FILL)
        judge("mixed_precision_coordinates:equal", A32, C32, True)
        judge("mixed_precision_coordinates:one_lat", A32, B32, False)
        lo_b = lon32.copy()
        lo_b[i] = np.nextafter(lo_b[i], np.float32(1000.0 if lo_b[i] < 100 else -1000.0))
        judge("mixed_precision_coordinates:one_lon_ulp", A32, U.Grid.from_topology(lo_b, lat.copy(), conn.copy(), fill_value=ux.INT_FILL), False)
        ctx.observe("mixed_precision_pairs")
    except Exception as e:
        ctx.check("no_exception", False, {"history": "mixed_precision", "exc": core.exc_sig(e)}, {"exc": repr(e)})
    # (3) derived quantities asked for on ONE side only: equal grids stay equal, different grids stay different
    TOUCH = ["face_lon", "face_areas", "edge_node_connectivity", "bounds", "node_x", "face_face_connectivity", "edge_lon", "node_face_connectivity"]
    pick = [TOUCH[int(j)] for j in rng.choice(len(TOUCH), size=3, replace=False)]
    left, right = mk(lon, lat, conn), mk(lon, lat, conn)
    early_copy = left.copy()
    for nm in pick:
        try:
            v = getattr(left, nm)
            np.asarray(v.values) if hasattr(v, "values") else v
        except Exception as e:
            ctx.observe("touch_raised:" + nm)
    judge("derived_on_one_side", left, right, True, {"touched": "+".join(sorted(pick))})
    judge("derived_on_one_side:copy_taken_before", left, early_copy, True, {"touched": "+".join(sorted(pick))})
    judge("derived_on_one_side:copy_taken_after", left, left.copy(), True, {"touched": "+".join(sorted(pick))})
    judge("derived_on_one_side:vs_one_lon", left, mk(l2, lat, conn), False, {"touched": "+".join(sorted(pick))})
    # (3b) Cartesian-only sources (face-vertex constructor): lon/lat are derived on first use - whichever coordinate is read first,
    # on one side only, the grid still equals a never-touched twin, its own copies, and differs from a twin with one corner moved
    try:
        w_ = max(len(f_) for f_ in m.faces)
        fv = np.full((m.n_face, w_, 3), float(ux.INT_FILL))
        for i_, f_ in enumerate(m.faces):
            fv[i_, : len(f_)] = m.xyz[f_]
        mkc = lambda a_: U.Grid.from_face_vertices(np.array(a_), latlon=False)  # noqa: E731
        # (the corner that is moved lies well away from the poles: inside the pole-snapping band a moved corner is still reported AT
        # the pole, i.e. the two grids would rightly be equal)
        cand = [(a_, b_) for a_ in range(m.n_face) for b_ in range(len(m.faces[a_])) if abs(fv[a_, b_, 2]) < 0.99]
        if not cand:
            raise RuntimeError("no corner away from the poles")
        a_, b_ = cand[int(rng.integers(0, len(cand)))]
        P_ = fv[a_, b_] + np.array([3e-7, -2e-7, 1e-7])
        fv2 = fv.copy()
        same_pt = np.all(fv2 == fv[a_, b_], axis=-1)
        fv2[same_pt] = P_ / np.linalg.norm(P_)
        for first in ("node_lat", "node_lon", "face_lat", "edge_lat", "bounds"):
            left, right = mkc(fv), mkc(fv)
            early = left.copy()
            try:
                np.asarray(getattr(left, first).values)
            except Exception:
                ctx.observe("touch_raised:" + first)
            ex = {"first_read": first}
            judge("cartesian_only:read_on_one_side", left, right, True, ex)
            judge("cartesian_only:copy_taken_before", left, early, True, ex)
            judge("cartesian_only:copy_taken_after", left, left.copy(), True, ex)
            judge("cartesian_only:vs_one_corner_moved", left, mkc(fv2), False, ex)
        ctx.observe("cartesian_only_histories")
    except RuntimeError:
        ctx.observe("cartesian_only_history_skipped")
    except Exception as e:
        ctx.check("no_exception", False, {"history": "cartesian_only", "exc": core.exc_sig(e)}, {"exc": repr(e)})
    # (4) dask-backed grids (Grid.chunk()): same judgement as for the in-memory ones
    try:
        ch = lambda g_: (g_.chunk(), g_)[1]  # noqa: E731  (chunk() converts in place)
        A, B = ch(mk(lon, lat, conn)), ch(mk(lon, lat, conn))
        judge("chunked_pair", A, B, True)
        judge("chunked_pair:one_lon", A, ch(mk(l2, lat, conn)), False)
        judge("chunked_pair:one_lat", A, ch(mk(lon, l3, conn)), False)
        judge("chunked_pair:swap_in_face", A, ch(mk(lon, lat, c2)), False)
        judge("chunked_vs_in_memory", A, mk(lon, lat, conn), True)
        judge("chunked_vs_in_memory:one_lon", A, mk(l2, lat, conn), False)
        judge("chunked_pair:copy", A, A.copy(), True)
        ctx.observe("chunked_pairs")
    except Exception as e:
        ctx.check("no_exception", False, {"history": "chunked", "exc": core.exc_sig(e)}, {"exc": repr(e)})
    ctx.observe("histories")
    ctx.sample({"mesh": case["mesh"], "twins": [t[0] for t in twins]})
