"""C17 - topological aggregations reduce over exactly each element's nodes."""

import numpy as np

from .. import gen, ref, ux, core

PROPERTY = "C17"
SHARDS = {"quick": 4, "thorough": 12}
RULE = (
    "cases: seeded random meshes (mixed face sizes, shuffled face order so size partitions interleave, partial, "
    "padding wider than needed) x all 10 reductions x both destinations x dtype in {float64,float32,int64,bool} x "
    "rank 1..3 (element dimension last), data carrying sentinel values on node 0 and on the last node so that a "
    "padding index that wraps becomes visible; then a second grid with the same counts and width whose faces come in another order; meshes whose element counts straddle an index type's range (n_face <= 255 < n_node; thorough: n_face <= 65535 < n_node); plus all unsupported (source kind, destination) pairs, which must raise. "
    "Oracle: python loop over the model's node lists applying the numpy reduction. Non-trivial = mesh mixes face "
    "sizes or rank >= 2."
)
ASSUMPTIONS = ["element dimension is the last one (the statement speaks of leading indices)", "numpy reductions are the reference for each reduction"]
AGGS = ["mean", "min", "max", "median", "std", "var", "sum", "prod", "all", "any"]
EXACT = {"min", "max", "median", "all", "any"}
MIN_EVAL = {"quick": {"values": 1500, "dims_grid": 1500, "raises": 300}, "thorough": {"values": 30000, "dims_grid": 30000, "raises": 5000}}


def cases(tier, seed):
    rng = np.random.default_rng([seed, 1717])
    # one large variable (implementations that work block-wise see more than one block)
    yield {"mesh": LARGE, "extra_width": 0, "dseed": 7, "dtype": "float64", "lead": [4, 64], "layout": "C", "big_offset": False, "backend": "numpy", "large": True}
    # element counts on either side of an index type's range: polygonal (Voronoi) meshes have about twice as many nodes as faces,
    # so n_face <= 255 < n_node (and, in thorough, n_face <= 65535 < n_node)
    for j in range(4 if tier == "quick" else 150):
        yield {"mesh": {"family": "voronoi", "n": int(rng.integers(135, 256)), "seed": int(rng.integers(0, 2**31 - 1)), "ops": [["renumber", int(rng.integers(0, 10**6))]]},
               "extra_width": 0, "dseed": int(rng.integers(0, 10**6)), "dtype": str(rng.choice(["float64", "int64", "bool"])), "lead": [2][: j % 2], "layout": "C", "big_offset": False,
               "backend": "numpy", "counts_straddle": 256}
    if tier == "thorough":
        yield {"mesh": {"family": "voronoi", "n": 33000, "seed": 3, "ops": []}, "extra_width": 0, "dseed": 11, "dtype": "float64", "lead": [], "layout": "C", "big_offset": False,
               "backend": "numpy", "counts_straddle": 65536, "large": True}
    n = 90 if tier == "quick" else 12000
    for i in range(n):
        yield {"mesh": gen.random_mesh(rng, 120 if tier == "quick" else 800, families=["voronoi", "merged", "merged", "polyhedron", "delaunay", "cubed_sphere", "sample"]),
               "extra_width": int(rng.choice([0, 0, 2])), "dseed": int(rng.integers(0, 10**6)),
               "dtype": str(rng.choice(["float64", "float32", "int64", "bool", "uint8", "int16", "int32"])), "lead": [int(x) for x in rng.integers(1, 4, size=int(rng.integers(0, 3)))],
               "layout": str(rng.choice(["C", "C", "F", "T", "strided"])), "big_offset": bool(rng.random() < 0.25),
               "backend": str(rng.choice(["numpy", "numpy", "numpy", "dask_data", "dask_grid", "dask_both"]))}


LARGE = {"family": "cubed_sphere", "ne": 30, "ops": []}  # 5400 quads; with leading (4, 64) the variable holds 5.5 million corner values


def make_data(rng, dtype, shape):
    if dtype in ("uint8", "int16", "int32"):
        # narrow integers close to the top of their range: sums of two neighbours leave the type
        hi = int(np.iinfo(dtype).max)
        d = rng.integers(hi // 2, hi, size=shape).astype(dtype)
        d[..., 0] = hi
        d[..., -1] = int(np.iinfo(dtype).min) + 1 if dtype != "uint8" else 1
        return d
    if dtype == "bool":
        d = rng.random(shape) < 0.7
        d[..., 0] = False
        d[..., -1] = True
        return d
    if dtype == "int64":
        d = rng.integers(-3, 4, size=shape).astype(np.int64)
        d[..., 0] = 1000003
        d[..., -1] = -999983
        return d
    d = rng.uniform(0.5, 1.5, size=shape).astype(dtype)
    d[..., 0] = 1.0e6 + 3
    d[..., -1] = -1.0e6 - 7
    return d


def run_case(ctx, case):
    U = ux.ux()
    m = gen.build(case["mesh"])
    width = max(len(f) for f in m.faces) + case["extra_width"]
    g = ux.grid_from_mesh(m, width=width)
    rng = np.random.default_rng(case["dseed"])
    lead = case["lead"]
    data = make_data(rng, case["dtype"], tuple(lead) + (m.n_node,))
    if case.get("big_offset") and case["dtype"] == "float64":
        # values large compared with their spread (surface pressure in Pa): variance / std must not cancel
        data = 101325.0 + 0.05 * (data - 1.0)
    dims = ["d%d" % i for i in range(len(lead))] + ["n_node"]
    # memory layout of the data: C, Fortran order, a transposed view of node-major storage, a strided view
    layout = case.get("layout", "C")
    if layout == "F":
        stored = np.asfortranarray(data)
    elif layout == "T":
        stored = np.ascontiguousarray(data.T).T
    elif layout == "strided":
        wide = np.zeros(data.shape[:-1] + (2 * data.shape[-1],), dtype=data.dtype)
        wide[..., ::2] = data
        stored = wide[..., ::2]
    else:
        stored = data.copy()
    ctx.observe("layout_" + layout)
    uxda = U.UxDataArray(stored, dims=dims, uxgrid=g, name="v")
    backend = case.get("backend", "numpy")
    if backend in ("dask_grid", "dask_both"):
        g.chunk()  # dask-backed grid variables
    if backend in ("dask_data", "dask_both"):
        uxda = uxda.chunk({dims[-1]: max(1, m.n_node // 3)})  # dask-backed data, chunked along the element dimension too
    ctx.observe("backend_" + backend)
    mixed = len({len(f) for f in m.faces}) > 1
    en = None
    for dest in ("face", "edge"):
        if dest == "face":
            elems = m.faces
        else:
            en = np.asarray(g.edge_node_connectivity.values)
            elems = [list(map(int, r)) for r in en]
        for agg in (AGGS if not case.get("large") else ["mean", "max"]):
            sig = {"agg": agg, "dest": dest, "dtype": case["dtype"], "mixed": mixed, "layout": layout, "rank": len(lead) + 1, "backend": backend, "large": bool(case.get("large"))}
            try:
                res = getattr(uxda, "topological_" + agg)(destination=dest)
            except Exception as e:
                ctx.check("no_exception", False, dict(sig, exc=core.exc_sig(e)), {"exc": repr(e), "mesh": case["mesh"]})
                continue
            fn = getattr(np, agg)
            want = np.empty(tuple(lead) + (len(elems),), dtype=float)
            for i, nodes in enumerate(elems):
                want[..., i] = fn(data[..., nodes], axis=-1)
            got = np.asarray(res.values)
            if got.shape != want.shape:
                ok = False
            elif agg in EXACT:
                ok = bool(np.array_equal(got.astype(float), want))
            else:
                ok = bool(np.allclose(got.astype(float), want, rtol=1e-12 if case["dtype"] != "float32" else 1e-5, atol=0, equal_nan=True))
            bad = None
            if not ok and got.shape == want.shape:
                idx = np.argwhere(~np.isclose(got.astype(float), want, rtol=1e-12, atol=0, equal_nan=True))
                if len(idx):
                    j = tuple(idx[0])
                    bad = {"index": [int(x) for x in j], "got": float(got[j]), "want": float(want[j]), "element_nodes": elems[j[-1]]}
            ctx.check("values", ok, sig, {"shape": list(got.shape), "want_shape": list(want.shape), "first_bad": bad, "mesh": case["mesh"]})
            want_dims = tuple(dims[:-1] + ["n_" + dest])
            ok = isinstance(res, U.UxDataArray) and tuple(res.dims) == want_dims and res.uxgrid is g and res.name == "v"
            ctx.check("dims_grid", ok, sig, {"type": type(res).__name__, "dims": list(res.dims), "want": list(want_dims), "name": res.name})
    # a second grid in the same process with the same element counts, padding width and source kind, whose faces come in
    # another order (so the size partitions differ): its results are its own
    m2 = gen.renumbered(m, case["dseed"] + 3, nodes=False, faces=True, starts=True)
    g2 = ux.grid_from_mesh(m2, width=width)
    uxda2 = U.UxDataArray(data.copy(), dims=dims, uxgrid=g2, name="v")
    for agg in ("mean", "max", "sum", "median"):
        sig = {"agg": agg, "dest": "face", "dtype": case["dtype"], "mixed": mixed, "twin": "faces_reordered_same_counts"}
        try:
            res = getattr(uxda2, "topological_" + agg)(destination="face")
            want = np.empty(tuple(lead) + (m2.n_face,), dtype=float)
            for i, nodes in enumerate(m2.faces):
                want[..., i] = getattr(np, agg)(data[..., nodes], axis=-1)
            got = np.asarray(res.values)
            ok = got.shape == want.shape and bool(np.allclose(got.astype(float), want, rtol=1e-12 if case["dtype"] != "float32" else 1e-5, atol=0, equal_nan=True))
            ctx.check("values", ok, sig, {"mesh": case["mesh"]})
            ctx.check("dims_grid", isinstance(res, U.UxDataArray) and res.uxgrid is g2 and tuple(res.dims) == tuple(dims[:-1] + ["n_face"]), sig, {"dims": list(res.dims)})
        except Exception as e:
            ctx.check("no_exception", False, dict(sig, exc=core.exc_sig(e)), {"exc": repr(e), "mesh": case["mesh"]})
    # unsupported combinations must raise, never return numbers
    n_edge = int(g.n_edge)
    combos = []
    for kind, n in (("n_face", m.n_face), ("n_edge", n_edge)):
        d = rng.uniform(size=tuple(lead) + (n,))
        arr = U.UxDataArray(d, dims=dims[:-1] + [kind], uxgrid=g, name="w")
        for dest in ("node", "edge", "face"):
            combos.append((kind, dest, arr))
    for dest in ("node", None, "cell"):
        combos.append(("n_node", dest, uxda))
    other = U.UxDataArray(rng.uniform(size=(3, 2)), dims=["a", "b"], uxgrid=g, name="o")
    combos.append(("none", "face", other))
    for kind, dest, arr in combos:
        agg = AGGS[int(rng.integers(0, len(AGGS)))]
        sig = {"source": kind, "dest": str(dest)}
        try:
            r = getattr(arr, "topological_" + agg)(destination=dest)
            ctx.check("raises", False, sig, {"returned": type(r).__name__, "agg": agg})
        except (ValueError, NotImplementedError):
            ctx.check("raises", True, sig)
        except Exception as e:
            ctx.check("raises", False, dict(sig, exc=core.exc_sig(e)), {"exc": repr(e), "agg": agg})
    if mixed or lead:
        ctx.mark_nontrivial()
    ctx.observe("meshes")
    if case.get("counts_straddle"):
        ctx.observe("meshes_with_n_face_below_%d_and_n_node_above" % case["counts_straddle"], int(m.n_face < case["counts_straddle"] <= m.n_node))
    if mixed:
        ctx.observe("mixed_size_meshes")
    ctx.observe("dtype_" + case["dtype"])
    ctx.observe("rank_%d" % (len(lead) + 1))
    ctx.sample({"mesh": case["mesh"], "stats": ux.mesh_stats(m), "dtype": case["dtype"], "lead": lead, "width": width})
