"""C05 - face areas are the spherical-polygon areas, invariantly."""

import math

import numpy as np

from .. import gen, ref, ux, core

PROPERTY = "C05"
SHARDS = {"quick": 8, "thorough": 16}
MODES = {"quick": [{"name": "jit", "env": {}}], "thorough": [{"name": "jit+boundscheck", "env": {"NUMBA_BOUNDSCHECK": "1"}}]}
RULE = (
    "cases (grids built from lon/lat topology (one in three in the caller's own index convention - one-based, padded with 0 / -1 / a large number; regular patches with whole-degree longitudes as an integer array) or, one in three, from Cartesian-only face vertices whose lon/lat the library derives): (a) the 15 supported quadrature tables (finite, walked completely: weights sum to 1, points inside the "
    "domain, monomial moments exact to the rule's degree); (b) closed Voronoi / merged-Delaunay / polyhedral / "
    "cubed-sphere meshes from 6 to 3000 cells (face diameters 3..100 degrees), every face checked with the default "
    "rule against the exact excess (Van Oosterom-Strackee fan, cross-checked with Girard) under the property's own "
    "bounds per diameter class; all 15 (rule, order) on a subset; invariance twins of each mesh: renumbered "
    "(bit-level), start corner rotated, rigidly rotated, pole-centred and antimeridian-centred placements, Cartesian "
    "input; additivity under chord cuts and inserted mid-edge nodes; cached face_areas vs fresh default after "
    "non-default computations; totals vs 4 pi. Non-trivial = a face that is not a triangle, or lies within 5 degrees "
    "of a pole / the antimeridian, or a non-default rule."
)
ASSUMPTIONS = ["exact area = fan sum of Van Oosterom-Strackee triangle excesses; Girard angle excess must agree to 1e-11 or the run is inconclusive",
               "only convex faces with 3..8 corners and edges < 90 degrees are held to the accuracy bounds"]
TRI = [1, 4, 8, 10, 12]
GAUSS = list(range(1, 11))
CONV = [4, 3, 2, 5, 4]  # indices into ux.CONVENTIONS: (fill 0, one-based), (-1, one-based), (-1, zero-based), (999999, zero-based)
RULES = [("triangular", o) for o in TRI] + [("gaussian", o) for o in GAUSS]
MIN_EVAL = {"quick": {"default_accuracy": 2000, "nonnegative": 2000, "convergence": 300, "invariance": 1500, "additivity": 200, "cache": 20, "total": 20, "quadrature_table": 15},
            "thorough": {"default_accuracy": 50000, "nonnegative": 50000, "convergence": 6000, "invariance": 40000, "additivity": 5000, "cache": 400, "total": 400, "quadrature_table": 15}}

# property's own bounds: relative error of the default rule per diameter class
BOUNDS = [(10.0, 1e-6), (30.0, 1e-4), (65.0, 1e-2)]


def bound_for(diam_deg):
    for d, b in BOUNDS:
        if diam_deg <= d:
            return b
    return None


def cases(tier, seed):
    rng = np.random.default_rng([seed, 505])
    yield {"kind": "tables"}
    n = 70 if tier == "quick" else 8000
    sizes = [6, 8, 12, 20, 40, 80, 150, 300, 600, 1200, 2500]
    for i in range(n):
        fam = str(rng.choice(["voronoi", "voronoi", "merged", "polyhedron", "cubed_sphere", "latlon_global", "latlon_patch", "clustered", "sample", "fine_patch"]))
        s = int(rng.integers(0, 2**31 - 1))
        if fam == "fine_patch":  # high-resolution regional patches: faces of metres to kilometres
            d = gen.random_mesh(rng, 60 if tier == "quick" else 300, allow_partial=False, families=["fine_patch"])
            d["ops"] = [o for o in d["ops"] if o[0] == "shrink"]
        elif fam == "sample":  # real meshes from the sample files
            d = gen.random_mesh(rng, 120 if tier == "quick" else 800, allow_partial=False, families=["sample"])
            d["ops"] = []
        elif fam == "voronoi":
            nn = int(sizes[int(rng.integers(0, len(sizes) if tier == "thorough" else len(sizes) - 1))])
            d = {"family": fam, "n": nn, "seed": s}
        elif fam == "merged":
            nn = int(rng.choice([10, 30, 100, 300, 800]))
            d = {"family": fam, "n": nn, "seed": s, "frac": float(rng.choice([0.3, 0.6, 0.9]))}
        elif fam == "polyhedron":
            d = {"family": fam, "name": gen.POLYHEDRA[int(rng.integers(0, len(gen.POLYHEDRA)))]}
        elif fam == "latlon_global":
            d = {"family": fam, "nlon": int(rng.integers(4, 40)), "nlat": int(rng.integers(3, 24))}
        elif fam == "latlon_patch":
            nx, ny = int(rng.integers(1, 9)), int(rng.integers(1, 7))
            dlat = float(rng.choice([2.0, 5.0, 10.0]))
            lat0 = float(rng.choice([-0.5 * ny * dlat, -0.5 * ny * dlat, -85.0, 20.0]))
            d = {"family": fam, "nx": nx, "ny": ny, "lon0": float(rng.choice([-179.0, -10.0, 150.0, 175.0])), "lat0": min(lat0, 88.0 - ny * dlat),
                 "dlon": float(rng.choice([2.0, 5.0, 10.0, 15.0])), "dlat": dlat}
        elif fam == "clustered":
            d = {"family": fam, "n": int(rng.choice([20, 60, 150])), "seed": s}
        else:
            d = {"family": fam, "ne": int(rng.integers(2, 12))}
        d["ops"] = [["rot", int(rng.integers(0, 10**6))]] if (rng.random() < 0.5 and fam not in ("latlon_global", "latlon_patch", "sample", "fine_patch")) else d.get("ops", [])
        source = "face_vertices_xyz" if i % 3 == 2 else "topology"
        if i % 3 == 1:  # the caller's own index convention: one-based, padded with 0 / -1 / a large number
            source = "topology_conv:%d" % CONV[(i // 3) % len(CONV)]
        if fam == "latlon_patch" and i % 2 == 0:  # whole-degree longitudes handed over as an integer array, fractional latitudes as floats
            source = "topology_int_lon"
        yield {"kind": "mesh", "mesh": d, "tseed": int(rng.integers(0, 10**6)), "all_rules": bool(i % 4 == 0), "source": source,
               "radius": float(rng.choice([1.0, 1.0, 0.5, 0.999, 2.0, 6371.229]))}


# --------------------------------------------------------------------------- tables
def check_tables(ctx):
    from uxarray.grid.area import get_gauss_quadratureDG, get_tri_quadratureDG

    for n in GAUSS:
        dG, dW = get_gauss_quadratureDG(n)
        x = np.asarray(dG)[0]
        w = np.asarray(dW)
        deg, tol = (2 * n - 1, 1e-13) if n != 9 else (2 * n - 3, 1e-8)  # order 9 is a Lobatto rule with 12-digit nodes
        err = max(abs(float(np.sum(w * x**d)) - 1.0 / (d + 1)) for d in range(deg + 1))
        ok = abs(w.sum() - 1) < 1e-13 and x.min() >= 0 and x.max() <= 1 and len(x) == n and err < tol and np.all(w > 0)
        ctx.check("quadrature_table", ok, {"rule": "gaussian", "order": n}, {"moment_err": err, "sum_w": float(w.sum())})
        ctx.mark_nontrivial(("gaussian", n))
    for o in TRI:
        dG, dW = get_tri_quadratureDG(o)
        G = np.asarray(dG)
        w = np.asarray(dW)
        err = 0.0
        for deg in range(o + 1):
            for a in range(deg + 1):
                b = deg - a
                exact = 2.0 * math.factorial(a) * math.factorial(b) / math.factorial(a + b + 2)
                err = max(err, abs(float(np.sum(w * G[:, 0] ** a * G[:, 1] ** b)) - exact))
        ok = abs(w.sum() - 1) < 1e-13 and G.min() >= 0 and np.abs(G.sum(axis=1) - 1).max() < 1e-13 and err < 1e-13
        ctx.check("quadrature_table", ok, {"rule": "triangular", "order": o}, {"moment_err": err, "sum_w": float(w.sum()), "min": float(G.min())})
        ctx.mark_nontrivial(("triangular", o))


# --------------------------------------------------------------------------- meshes
def exact_areas(m):
    out = np.empty(m.n_face)
    for i in range(m.n_face):
        P = m.ring_pos(i)
        out[i] = ref.poly_area_fan(P)
    return out


def face_class(m):
    """per face: (diameter_deg, max_edge_deg, k, convex)"""
    info = []
    for i, f in enumerate(m.faces):
        P = m.ring_pos(i)
        k = len(f)
        me = max(float(ref.angle(P[j], P[(j + 1) % k])) for j in range(k))
        info.append((math.degrees(ref.diameter(P)), math.degrees(me), k, ref.is_convex_ccw_rel(P, 1e-6)))
    return info


def areas(g, rule=None, order=None, latlon=True):
    if rule is None:
        a, _ = g.compute_face_areas(latlon=latlon) if not latlon else g.compute_face_areas()
    else:
        a, _ = g.compute_face_areas(rule, order, latlon)
    return np.array(a, dtype=float)


RADIUS = [1.0]  # the Cartesian corners of the current case are given on a sphere of this radius (kilometres, half a unit, ...)


def make_grid(m, source):
    """lon/lat explicit topology, or a Cartesian-only source (face-vertex constructor): lon/lat are then derived by the library"""
    if source == "face_vertices_xyz":
        w = max(len(f) for f in m.faces)
        fv = np.full((m.n_face, w, 3), float(ux.INT_FILL))
        for i, f in enumerate(m.faces):
            fv[i, : len(f)] = m.xyz[f] * RADIUS[0]
        return ux.ux().Grid.from_face_vertices(fv, latlon=False)
    if source.startswith("topology_conv:"):
        return ux.grid_from_mesh(m, convention=ux.CONVENTIONS[int(source.split(":")[1])])
    if source == "topology_int_lon":
        lon, lat = m.lonlat()
        li = np.rint(lon)
        if np.max(np.abs(lon - li)) < 1e-9:  # (twins that were rotated have no whole-degree longitudes: handed over as floats)
            return ux.ux().Grid.from_topology(node_lon=li.astype(np.int64), node_lat=np.array(lat), face_node_connectivity=m.padded(), fill_value=ux.INT_FILL)
    return ux.grid_from_mesh(m)


def run_case(ctx, case):
    if case["kind"] == "tables":
        check_tables(ctx)
        return
    d = case["mesh"]
    m = gen.build(d)
    rng = np.random.default_rng(case["tseed"])
    RADIUS[0] = float(case.get("radius", 1.0)) if case.get("source") == "face_vertices_xyz" else 1.0
    ctx.observe("cartesian_radius_%g" % RADIUS[0])
    ex = exact_areas(m)
    # oracle self-check on a few faces
    for i in rng.choice(m.n_face, size=min(5, m.n_face), replace=False):
        P = m.ring_pos(int(i))
        # Girard's angle sum is ill conditioned for short edges (each angle carries ~1e-16 / edge length); the Van Oosterom fan
        # used as the reference is not (checked against long-double evaluation)
        k_ = len(P)
        min_edge = min(float(ref.angle(P[j], P[(j + 1) % k_])) for j in range(k_))
        if ref.is_convex_ccw_rel(P, 1e-6) and abs(ref.poly_area_girard(P) - ex[int(i)]) > 1e-11 + 2e-15 * k_ / max(min_edge, 1e-12):
            ctx.harness_error("oracle", RuntimeError("fan and Girard areas disagree: %r vs %r" % (ex[int(i)], ref.poly_area_girard(P))))
            return
    info = face_class(m)
    eligible = np.array([(c[3] and 3 <= c[2] <= 8 and c[1] < 90.0) for c in info])
    # faces with a corner inside the library's pole-snapping band (not AT the pole) are reported with that corner at the pole
    # (sanctioned by C04): the grid then describes another polygon there, nothing is demanded of its area
    _zb = (np.abs(m.xyz[:, 2]) > 1 - 1.01e-8) & (np.abs(m.xyz[:, 2]) < 1.0)
    if _zb.any():
        eligible = eligible & ~np.array([bool(_zb[f_].any()) for f_ in m.faces])
        ctx.observe("meshes_with_corner_in_pole_snap_band")
    diam = np.array([c[0] for c in info])
    bnd = np.array([bound_for(x) if bound_for(x) is not None else np.inf for x in diam])
    lon, lat = m.lonlat()
    special = np.zeros(m.n_face, dtype=bool)
    for i, f in enumerate(m.faces):
        special[i] = bool(np.any(np.abs(lat[f]) > 85) or np.any(np.abs(np.abs(lon[f]) - 180) < 5))
    source = case.get("source", "topology")
    g = make_grid(m, source)
    ctx.observe("source_" + source)
    try:
        a0 = areas(g)
    except Exception as e:
        ctx.check("no_exception", False, {"stage": "default", "exc": core.exc_sig(e)}, {"exc": repr(e), "mesh": d})
        return
    ctx.check("no_exception", True)
    rel0 = np.abs(a0 - ex) / ex
    # non-negativity for every face
    neg = np.argwhere(a0 < 0)
    ctx.clause_evals["nonnegative"] = ctx.clause_evals.get("nonnegative", 0) + m.n_face - 1
    ctx.check("nonnegative", len(neg) == 0, {}, {"faces": neg.ravel().tolist()[:5], "mesh": d})
    # default-rule accuracy per class
    chk = eligible & np.isfinite(bnd)
    # rounding floor: areas are sums of terms computed from unit vectors - about 10 ulp of the unit sphere, absolute (matters below ~1e-9 sr)
    floor = 1e-12 + 2e-15 / ex
    bad = np.argwhere(chk & (rel0 > np.maximum(bnd, floor)))
    ctx.clause_evals["default_accuracy"] = ctx.clause_evals.get("default_accuracy", 0) + int(chk.sum()) - 1
    cls = lambda x: "<=10" if x <= 10 else "<=30" if x <= 30 else "<=65" if x <= 65 else ">65"
    ctx.check("default_accuracy", len(bad) == 0, {"class": cls(diam[bad[0][0]]) if len(bad) else ""},
              None if not len(bad) else {"face": int(bad[0][0]), "diam_deg": float(diam[bad[0][0]]), "rel_err": float(rel0[bad[0][0]]), "bound": float(bnd[bad[0][0]]), "k": info[bad[0][0]][2], "mesh": d})
    for x in diam[chk]:
        ctx.observe("faces_class_" + cls(x))
    ctx.observe("faces_checked", int(chk.sum()))
    ctx.observe("faces_near_pole_or_antimeridian", int((special & chk).sum()))
    ctx.observe("faces_nontriangle", int(sum(1 for c, e in zip(info, chk) if e and c[2] > 3)))
    # totals
    if m.closed:
        tot = float(np.sum(a0))
        # "to the same accuracy": only promised when every face is in a class that carries a bound
        tb = float(np.max(bnd)) if (eligible.all() and np.all(np.isfinite(bnd))) else None
        if tb is not None:
            ctx.check("total", abs(tot - 4 * math.pi) / (4 * math.pi) <= tb, {}, {"total": tot, "bound": tb, "mesh": d})
            try:
                t2 = float(g.calculate_total_face_area())
                ctx.check("total", t2 == tot or abs(t2 - tot) <= 1e-12 * tot, {"what": "calculate_total_face_area"}, {"t2": t2, "tot": tot})
            except Exception as e:
                ctx.check("no_exception", False, {"stage": "total", "exc": core.exc_sig(e)}, {"exc": repr(e)})

    # all rules: convergence
    by_rule = {("triangular", 4): a0}
    if case["all_rules"]:
        for rule, order in RULES:
            if (rule, order) == ("triangular", 4):
                continue
            try:
                by_rule[(rule, order)] = areas(g, rule, order)
            except Exception as e:
                ctx.check("no_exception", False, {"stage": "rule", "rule": rule, "order": order, "exc": core.exc_sig(e)}, {"exc": repr(e), "mesh": d})
        for fam, hi, dflt in (("triangular", 12, 4), ("gaussian", 10, 4)):
            if (fam, hi) not in by_rule or (fam, dflt) not in by_rule:
                continue
            rhi = np.abs(by_rule[(fam, hi)] - ex) / ex
            rdf = np.abs(by_rule[(fam, dflt)] - ex) / ex
            lim = np.where(diam <= 30, 1e-9, np.where(diam <= 65, 1e-6, np.inf))
            badc = np.argwhere(eligible & ((rhi > np.maximum(rdf, 1e-12 + 2e-15 / ex)) | (rhi > np.maximum(lim, 1e-12 + 2e-15 / ex))))  # rounding floor: ~10 ulp of the unit sphere, absolute
            ctx.clause_evals["convergence"] = ctx.clause_evals.get("convergence", 0) + int(eligible.sum()) - 1
            ctx.check("convergence", len(badc) == 0, {"family": fam},
                      None if not len(badc) else {"face": int(badc[0][0]), "diam_deg": float(diam[badc[0][0]]), "err_hi": float(rhi[badc[0][0]]), "err_default": float(rdf[badc[0][0]]), "mesh": d})
            if eligible.any():
                ctx.mark_nontrivial(("rule", fam))
        for (rule, order), a in by_rule.items():
            ctx.check("nonnegative", bool(np.all(a >= 0)), {"rule": rule, "order": order}, {"mesh": d})
            ctx.observe("rule_%s_%d" % (rule, order))
        # cache: face_areas must equal a fresh default computation although other rules ran just before
        try:
            cached = np.array(g.face_areas.values, dtype=float)
            fresh = areas(make_grid(m, source))
            ctx.check("cache", np.array_equal(cached, fresh), {"history": "non-default computed before first face_areas"}, {"max_diff": float(np.max(np.abs(cached - fresh))), "mesh": d})
            areas(g, "gaussian", 2)
            cached2 = np.array(g.face_areas.values, dtype=float)
            ctx.check("cache", np.array_equal(cached2, fresh), {"history": "non-default computed after face_areas"}, {"max_diff": float(np.max(np.abs(cached2 - fresh))), "mesh": d})
        except Exception as e:
            ctx.check("no_exception", False, {"stage": "cache", "exc": core.exc_sig(e)}, {"exc": repr(e)})

    # invariance twins (default rule, and the highest triangular order when all_rules)
    def in_band(mesh_):
        """faces with a corner inside the library's pole-snapping band (|z| > 1 - 1e-8 but not at the pole): the grid reports that
        corner AT the pole (sanctioned by C04), i.e. it describes a polygon displaced by up to 1.4e-4 rad there"""
        zb = (np.abs(mesh_.xyz[:, 2]) > 1 - 1.01e-8) & (np.abs(mesh_.xyz[:, 2]) < 1.0)
        return np.array([bool(zb[f_].any()) for f_ in mesh_.faces])

    base_band = in_band(m)

    def twin_check(name, a_tw, order_map, tol_factor, hi=False, tw_mesh=None):
        # order_map: twin face k is base face order_map[k]
        base = (by_rule[("triangular", 12)] if hi else a0)[order_map]
        e = eligible[order_map] & ~base_band[order_map]
        if tw_mesh is not None:
            e = e & ~in_band(tw_mesh)
        if hi:
            lim = np.where(diam[order_map] <= 30, 1e-9, np.inf)
        else:
            lim = tol_factor * bnd[order_map]
        relc = np.abs(a_tw - base) / base
        lim = np.maximum(lim, 2 * (1e-12 + 2e-15 / ex[order_map]))  # two roundings
        badt = np.argwhere(e & (relc > lim))
        ctx.clause_evals["invariance"] = ctx.clause_evals.get("invariance", 0) + int((e & np.isfinite(lim)).sum()) - 1
        ctx.check("invariance", len(badt) == 0, {"twin": name, "order": "highest" if hi else "default"},
                  None if not len(badt) else {"twin_face": int(badt[0][0]), "rel_diff": float(relc[badt[0][0]]), "limit": float(lim[badt[0][0]]), "diam_deg": float(diam[order_map][badt[0][0]]), "mesh": d})

    ident = np.arange(m.n_face)
    twins = []
    # renumbering only (same fan): must agree to rounding
    mr = gen.renumbered(m, int(rng.integers(0, 10**6)), starts=False)
    twins.append(("renumber", mr, np.array(mr.face_order), "bit"))
    ms = gen.renumbered(m, int(rng.integers(0, 10**6)), nodes=False, faces=False, starts=True)
    twins.append(("start_corner", ms, ident, "acc"))
    twins.append(("rigid_rotation", gen.random_rotated(m, int(rng.integers(0, 10**6))), ident, "acc"))
    fi = int(rng.integers(0, m.n_face))
    twins.append(("face_to_north_pole", gen.snap(m, "face_npole", fi), ident, "acc"))
    twins.append(("face_to_antimeridian", gen.snap(m, "face_am", fi), ident, "acc"))
    twins.append(("node_to_south_pole", gen.snap(m, "node_spole", int(rng.integers(0, m.n_node))), ident, "acc"))
    for name, tw, omap, mode in twins:
        try:
            gt = make_grid(tw, source)
            at = areas(gt)
            if mode == "bit":
                base = a0[omap]
                relc = np.abs(at - base) / base
                ctx.clause_evals["invariance"] = ctx.clause_evals.get("invariance", 0) + m.n_face - 1
                ctx.check("invariance", bool(np.all(relc <= 1e-13)), {"twin": name, "order": "default"}, {"max_rel": float(relc.max()), "mesh": d})
            else:
                twin_check(name, at, omap, 2.0, tw_mesh=tw)
                if case["all_rules"] and ("triangular", 12) in by_rule:
                    twin_check(name, areas(gt, "triangular", 12), omap, 2.0, hi=True, tw_mesh=tw)
        except Exception as e:
            ctx.check("no_exception", False, {"stage": "twin", "twin": name, "exc": core.exc_sig(e)}, {"exc": repr(e), "mesh": d})
    # Cartesian input
    try:
        ac = areas(g, "triangular", 4, latlon=False)
        twin_check("cartesian_input", ac, ident, 2.0)
    except Exception as e:
        ctx.check("no_exception", False, {"stage": "cartesian", "exc": core.exc_sig(e)}, {"exc": repr(e), "mesh": d})

    # additivity: cut faces by a chord between non-adjacent corners; insert a mid-edge node
    cut_faces, cut_src = [], []
    xyz = [p for p in m.xyz]
    for f_i in rng.permutation(m.n_face)[:40]:
        f = m.faces[int(f_i)]
        k = len(f)
        if not eligible[int(f_i)]:
            continue
        if k >= 4:
            a_ = int(rng.integers(0, k))
            b_ = (a_ + int(rng.integers(2, k - 1))) % k
            lo, hi_ = sorted((a_, b_))
            p1 = f[lo:hi_ + 1]
            p2 = f[hi_:] + f[: lo + 1]
            cut_faces += [p1, p2]
            cut_src.append((int(f_i), "chord", 2))
        # mid-edge node
        j = int(rng.integers(0, k))
        mid = ref.unit(m.xyz[f[j]] + m.xyz[f[(j + 1) % k]])
        if abs(mid[2]) > 1 - 1e-6:
            continue
        xyz.append(mid)
        nf = f[: j + 1] + [len(xyz) - 1] + f[j + 1:]
        if len(nf) <= 8:
            cut_faces.append(nf)
            cut_src.append((int(f_i), "midnode", 1))
    if cut_faces:
        cm = gen.Mesh(np.array(xyz), cut_faces, {"derived": "cuts"}, False)
        try:
            ca = areas(ux.grid_from_mesh(cm))
            pos = 0
            for f_i, kind, cnt in cut_src:
                s = float(np.sum(ca[pos:pos + cnt]))
                pos += cnt
                lim = max(2.0 * bnd[f_i], 3 * (1e-12 + 2e-15 / ex[f_i]))  # (rounding floor of three areas)
                if np.isfinite(lim):
                    rel = abs(s - a0[f_i]) / a0[f_i]
                    ctx.check("additivity", rel <= lim, {"cut": kind}, {"face": f_i, "rel": rel, "limit": float(lim), "diam_deg": float(diam[f_i]), "mesh": d})
        except Exception as e:
            ctx.check("no_exception", False, {"stage": "cuts", "exc": core.exc_sig(e)}, {"exc": repr(e), "mesh": d})
    if np.any(chk & (special | np.array([c[2] > 3 for c in info]))) or case["all_rules"]:
        ctx.mark_nontrivial()
    ctx.observe("meshes")
    ctx.sample({"mesh": d, "n_face": m.n_face, "diam_deg_range": [float(diam.min()), float(diam.max())], "all_rules": case["all_rules"],
                "max_rel_err_default": float(rel0[chk].max()) if chk.any() else None})
