"""C16 - edge distances, differences and gradients follow the edge's own neighbours."""

import numpy as np

from .. import gen, ref, ux, core

PROPERTY = "C16"
SHARDS = {"quick": 4, "thorough": 12}
MODES = {"quick": [{"name": "jit+boundscheck", "env": {"NUMBA_BOUNDSCHECK": "1"}}], "thorough": [{"name": "jit+boundscheck", "env": {"NUMBA_BOUNDSCHECK": "1"}}]}
RULE = (
    "cases: seeded meshes with n_face > n_node (Delaunay), n_face < n_node (Voronoi), mixed (merged), partial meshes "
    "with boundary edges, snapped placements; MPAS-style sources that supply dvEdge/dcEdge (values deliberately "
    "distinct from the geometric ones); data of rank 1..3 (face- and node-centred, random + constant fields). All runs "
    "under numba's bounds-check mode so that indexing a node array with a face index faults. Oracle: atan2 geodesic "
    "distance between the positions the grid reports for the edge's nodes / the centres of its two faces; per-edge "
    "python loop for difference and gradient; per-leading-index evaluation for independence. Non-trivial = mesh has "
    "a boundary edge, or n_face != n_node, or rank >= 2."
)
ASSUMPTIONS = ["edge_node / edge_face tables are the grid's own (decided by C02/C03)", "tolerance on distances max(1e-13, 1e-12*d) rad (rounding of coordinates given in degrees)"]
MIN_EVAL = {"quick": {"edge_node_distances": 70, "edge_face_distances": 70, "supplied_distances_carried": 30, "difference": 300, "gradient": 200, "normalized_gradient": 100, "dims_grid": 300},
            "thorough": {"edge_node_distances": 1500, "edge_face_distances": 1500, "supplied_distances_carried": 600, "difference": 6000, "gradient": 4000, "normalized_gradient": 2000, "dims_grid": 6000}}


def DTOL(d):
    """Tolerance on a great-circle distance d (radians): positions come as degrees (1 ulp at 360 = 6e-14 degrees = 1e-15 rad per
    coordinate) - 1e-13 rad absolute, 1e-12 relative."""
    return np.maximum(1e-13, 1e-12 * np.asarray(d, dtype=float))


def cases(tier, seed):
    rng = np.random.default_rng([seed, 1616])
    n = 170 if tier == "quick" else 15000
    for i in range(n):
        yield {"mesh": gen.random_mesh(rng, 150 if tier == "quick" else 1200, families=["voronoi", "delaunay", "merged", "polyhedron", "cubed_sphere", "latlon_patch", "latlon_global", "clustered", "fine_patch", "refined", "sample"]),
               "dseed": int(rng.integers(0, 10**6)), "lead": [int(x) for x in rng.integers(1, 4, size=int(rng.integers(0, 3)))],
               "source": str(rng.choice(["topology", "topology", "mpas_supplied", "mpas_plain", "topology_edge_tables"])),
               "backend": str(rng.choice(["numpy", "numpy", "numpy", "dask_data", "dask_grid", "dask_both"]))}


def run_case(ctx, case):
    U = ux.ux()
    d = case["mesh"]
    m = gen.build(d)
    rng = np.random.default_rng(case["dseed"])
    supplied = None
    if case["source"].startswith("mpas"):
        from .. import dialects

        try:
            ds, info = dialects.mpas_dataset(m, rng, supply_distances=case["source"] == "mpas_supplied", force={"optional_tables": True} if case["source"] == "mpas_supplied" else None)
            g = U.open_grid(ds)
            supplied = info["supplied"].get("distances")
        except Exception as e:
            ctx.check("no_exception", False, {"stage": "open_mpas", "exc": core.exc_sig(e)}, {"exc": repr(e), "mesh": d})
            return
    elif case["source"] == "topology_edge_tables":
        # the source ships its own edge tables (as UGRID / ICON files do): edges in any order, the two nodes and the two faces of
        # an edge in either order (so face 0 may come second), boundary edges as (face, fill)
        efm = ref.edge_faces(m.faces)
        edges = sorted(efm, key=lambda e: sorted(e))
        edges = [edges[i] for i in rng.permutation(len(edges))]
        en_s = np.array([sorted(e) if rng.random() < 0.5 else sorted(e)[::-1] for e in edges], dtype=np.intp)
        ef_s = np.full((len(edges), 2), ux.INT_FILL, dtype=np.intp)
        for i_, e in enumerate(edges):
            fs = sorted(efm[e])
            if len(fs) == 2 and rng.random() < 0.6:
                fs = fs[::-1]
            ef_s[i_, : len(fs)] = fs
        try:
            g = ux.grid_from_mesh(m, extra={"edge_node_connectivity": en_s, "edge_face_connectivity": ef_s})
        except Exception as e:
            ctx.check("no_exception", False, {"stage": "open_edge_tables", "exc": core.exc_sig(e)}, {"exc": repr(e), "mesh": d})
            return
    else:
        g = ux.grid_from_mesh(m)
    sig0 = {"source": case["source"]}
    try:
        en = np.asarray(g.edge_node_connectivity.values)
        ef = np.asarray(g.edge_face_connectivity.values)
        end = np.asarray(g.edge_node_distances.values, dtype=float)
        efd = np.asarray(g.edge_face_distances.values, dtype=float)
    except Exception as e:
        ctx.check("no_exception", False, dict(sig0, stage="distances", exc=core.exc_sig(e)), {"exc": repr(e), "mesh": d})
        return
    ctx.check("no_exception", True)
    en0, ef0, end0, efd0 = en.copy(), ef.copy(), end.copy(), efd.copy()
    n_edge = len(en)
    nodeP = ux.grid_node_xyz(g)
    faceP = ref.lonlat_to_xyz(np.asarray(g.face_lon.values, float), np.asarray(g.face_lat.values, float))
    interior = ef[:, 1] != ux.INT_FILL
    if supplied is not None:
        # supplied distances must be carried (in the library's unit: radians on the unit sphere), edge by edge
        want_n, want_f = supplied["edge_node"], supplied["edge_face"]
        ctx.check("supplied_distances_carried", end.shape == want_n.shape and np.allclose(end, want_n, rtol=1e-12, atol=0), dict(sig0, which="edge_node_distances"),
                  {"got": end[:5].tolist(), "want": want_n[:5].tolist(), "mesh": d})
        ctx.check("supplied_distances_carried", efd.shape == want_f.shape and np.allclose(efd, want_f, rtol=1e-12, atol=0), dict(sig0, which="edge_face_distances"),
                  {"got": efd[:5].tolist(), "want": want_f[:5].tolist(), "mesh": d})
    else:
        want = ref.angle(nodeP[en[:, 0]], nodeP[en[:, 1]])
        # arccos of the law of cosines: absolute error ~ eps / distance for very short edges
        bad = np.argwhere(~(np.abs(end - want) <= DTOL(want)))
        ctx.check("edge_node_distances", end.shape == (n_edge,) and len(bad) == 0, sig0,
                  None if not len(bad) else {"edge": int(bad[0][0]), "got": float(end[bad[0][0]]), "want": float(want[bad[0][0]]), "mesh": d})
        wantf = np.zeros(n_edge)
        wantf[interior] = ref.angle(faceP[ef[interior, 0]], faceP[ef[interior, 1]])
        bad = np.argwhere(~(np.abs(efd - wantf) <= DTOL(wantf)))
        ctx.check("edge_face_distances", efd.shape == (n_edge,) and len(bad) == 0, dict(sig0, n_face_vs_n_node="gt" if m.n_face > m.n_node else "le"),
                  None if not len(bad) else {"edge": int(bad[0][0]), "got": float(efd[bad[0][0]]), "want": float(wantf[bad[0][0]]), "boundary": bool(~interior[bad[0][0]]), "mesh": d})
    if case.get("backend") in ("dask_grid", "dask_both"):
        g.chunk()  # dask-backed grid variables from here on
    ctx.observe("backend_" + case.get("backend", "numpy"))
    # data operators
    # two face centres inside the library's pole-snapping band (C04 sanctions it) are reported at the very same point: the
    # quotient difference / distance is undefined on such an edge, nothing is demanded there
    defined = ~(interior & (efd == 0))
    if not defined.all():
        ctx.observe("meshes_with_coincident_reported_centres")
    lead = case["lead"]
    ldims = ["t%d" % i for i in range(len(lead))]
    n_face, n_node = g.n_face, g.n_node
    for field in ("random", "constant", "integer", "with_nan", "tiny_values"):
        if field == "tiny_values":  # trace quantities (mixing ratios ~1e-10): differences far below 1e-8 are still differences
            fdat = rng.normal(size=tuple(lead) + (n_face,)) * 2e-10
            ndat = rng.normal(size=tuple(lead) + (n_node,)) * 2e-10
        elif field == "with_nan":  # masked data: a missing value on one side of an edge makes that edge's difference missing
            fdat = rng.normal(size=tuple(lead) + (n_face,))
            ndat = rng.normal(size=tuple(lead) + (n_node,))
            fdat[..., rng.random(n_face) < 0.3] = np.nan
            ndat[..., rng.random(n_node) < 0.3] = np.nan
        elif field == "integer":  # category / mask fields stored as integers
            fdat = rng.integers(-6, 7, size=tuple(lead) + (n_face,)).astype(np.int64 if rng.random() < 0.5 else np.int32)
            ndat = rng.integers(-6, 7, size=tuple(lead) + (n_node,)).astype(np.int64)
        else:
            fdat = rng.normal(size=tuple(lead) + (n_face,)) if field == "random" else np.full(tuple(lead) + (n_face,), 3.5)
            ndat = rng.normal(size=tuple(lead) + (n_node,)) if field == "random" else np.full(tuple(lead) + (n_node,), -1.25)
        fda = U.UxDataArray(fdat.copy(), dims=ldims + ["n_face"], uxgrid=g, name="f")
        nda = U.UxDataArray(ndat.copy(), dims=ldims + ["n_node"], uxgrid=g, name="n")
        backend = case.get("backend", "numpy")
        if backend in ("dask_data", "dask_both"):
            fda, nda = fda.chunk({"n_face": max(1, n_face // 3)}), nda.chunk({"n_node": max(1, n_node // 3)})
        sig = dict(sig0, field=field, rank=len(lead) + 1, backend=backend)

        def ok_meta(r):
            return isinstance(r, U.UxDataArray) and tuple(r.dims) == tuple(ldims + ["n_edge"]) and r.uxgrid is g

        # differences
        try:
            r = fda.difference(destination="edge")
            want = np.zeros(tuple(lead) + (n_edge,))
            want[..., interior] = np.abs(fdat[..., ef[interior, 0]] - fdat[..., ef[interior, 1]])
            ctx.check("difference", np.asarray(r.values).shape == want.shape and np.array_equal(np.asarray(r.values), want, equal_nan=True), dict(sig, kind="face"), {"mesh": d})
            ctx.check("dims_grid", ok_meta(r), dict(sig, op="difference_face"), {"dims": list(r.dims)})
            r = nda.difference(destination="edge")
            want = np.abs(ndat[..., en[:, 0]] - ndat[..., en[:, 1]])
            ctx.check("difference", np.asarray(r.values).shape == want.shape and np.array_equal(np.asarray(r.values), want, equal_nan=True), dict(sig, kind="node"), {"mesh": d})
            ctx.check("dims_grid", ok_meta(r), dict(sig, op="difference_node"), {"dims": list(r.dims)})
        except Exception as e:
            ctx.check("no_exception", False, dict(sig, stage="difference", exc=core.exc_sig(e)), {"exc": repr(e), "mesh": d})
        # gradient
        try:
            r = fda.gradient()
            want = np.zeros(tuple(lead) + (n_edge,))
            want[..., interior] = np.abs(fdat[..., ef[interior, 0]] - fdat[..., ef[interior, 1]]) / efd[interior]
            got = np.asarray(r.values)
            if got.shape == want.shape:
                got = np.where(defined, got, 0.0)
                want = np.where(defined, want, 0.0)
            ctx.check("gradient", got.shape == want.shape and np.allclose(got, want, rtol=1e-13, atol=0, equal_nan=True), sig,
                      {"max_abs_diff": float(np.max(np.abs(got - want))) if got.shape == want.shape else None, "mesh": d})
            ctx.check("dims_grid", ok_meta(r), dict(sig, op="gradient"), {"dims": list(r.dims)})
            if field == "constant":
                ctx.check("gradient", bool(np.all(got == 0)), dict(sig, what="zero_for_constant"), None)
            elif field != "with_nan":
                ctx.check("gradient", bool(np.all(got[..., ~interior] == 0)), dict(sig, what="zero_on_boundary"), None)
                if interior.any() and defined.all():
                    rn = fda.gradient(normalize=True)
                    gn = np.asarray(rn.values)
                    norms = np.sqrt(np.sum(gn * gn, axis=-1))
                    # independent along leading dims: every leading index has unit norm and is the normalised plain gradient
                    wnorm = np.sqrt(np.sum(want * want, axis=-1, keepdims=True))
                    nz = wnorm[..., 0] > 0  # a leading index whose gradient vanishes everywhere (equal values on all faces) has no direction
                    wn = want / np.where(wnorm > 0, wnorm, 1.0)
                    ctx.check("normalized_gradient", gn.shape == want.shape and np.allclose(norms[nz], 1.0, rtol=1e-12) and np.allclose(gn[nz], wn[nz], rtol=1e-12, atol=1e-15), sig,
                              {"norms": np.ravel(norms)[:6].tolist(), "mesh": d})
                    ctx.check("dims_grid", ok_meta(rn), dict(sig, op="gradient_normalized"), {"dims": list(rn.dims)})
        except Exception as e:
            ctx.check("no_exception", False, dict(sig, stage="gradient", exc=core.exc_sig(e)), {"exc": repr(e), "mesh": d})
    # a second grid in the same process with the very same connectivity but other node positions (a rigid rotation keeps the
    # distances, so the mesh is deformed: z scaled by 0.6 and renormalised): its distances are its own
    if case["source"] == "topology":
        try:
            xyz2 = ref.unit(m.xyz * np.array([1.0, 1.0, 0.6]))
            if not np.any(np.abs(xyz2[:, 2]) > 1 - 1e-6):
                m2 = gen.Mesh(xyz2, m.faces, dict(d, deformed=True), m.closed)
                g2 = ux.grid_from_mesh(m2)
                ef2 = np.asarray(g2.edge_face_connectivity.values)
                en2 = np.asarray(g2.edge_node_connectivity.values)
                int2 = ef2[:, 1] != ux.INT_FILL
                P2 = ux.grid_node_xyz(g2)
                F2 = ref.lonlat_to_xyz(np.asarray(g2.face_lon.values, float), np.asarray(g2.face_lat.values, float))
                w2 = np.zeros(len(ef2))
                w2[int2] = ref.angle(F2[ef2[int2, 0]], F2[ef2[int2, 1]])
                got2 = np.asarray(g2.edge_face_distances.values, dtype=float)
                ctx.check("edge_face_distances", got2.shape == w2.shape and bool(np.all(np.abs(got2 - w2) <= DTOL(w2))),
                          dict(sig0, twin="same_connectivity_other_positions"), {"mesh": d})
                wn2 = ref.angle(P2[en2[:, 0]], P2[en2[:, 1]])
                gn2 = np.asarray(g2.edge_node_distances.values, dtype=float)
                ctx.check("edge_node_distances", bool(np.all(np.abs(gn2 - wn2) <= DTOL(wn2))), dict(sig0, twin="same_connectivity_other_positions"), {"mesh": d})
                ctx.observe("deformed_twins")
        except Exception as e:
            ctx.check("no_exception", False, dict(sig0, stage="deformed_twin", exc=core.exc_sig(e)), {"exc": repr(e), "mesh": d})
    # the operators above only read the grid: its tables and distances must report the same values afterwards
    try:
        again = (np.asarray(g.edge_node_connectivity.values), np.asarray(g.edge_face_connectivity.values),
                 np.asarray(g.edge_node_distances.values, dtype=float), np.asarray(g.edge_face_distances.values, dtype=float))
        for nm, a0, a1 in zip(("edge_node_connectivity", "edge_face_connectivity", "edge_node_distances", "edge_face_distances"), (en0, ef0, end0, efd0), again):
            ctx.check("grid_unchanged_by_operators", a0.shape == a1.shape and np.array_equal(a0, a1, equal_nan=a0.dtype.kind == "f"), dict(sig0, table=nm),
                      {"first_diff": int(np.argwhere(np.ravel(a0 != a1))[0][0]) if a0.shape == a1.shape and np.any(a0 != a1) else None, "mesh": d})
    except Exception as e:
        ctx.check("no_exception", False, dict(sig0, stage="reobserve", exc=core.exc_sig(e)), {"exc": repr(e), "mesh": d})
    if (~interior).any() or m.n_face != m.n_node or lead:
        ctx.mark_nontrivial()
    ctx.observe("meshes")
    ctx.observe("source_" + case["source"])
    if (~interior).any():
        ctx.observe("with_boundary_edges")
    ctx.observe("n_face_gt_n_node" if m.n_face > m.n_node else "n_face_le_n_node")
    ctx.observe("rank_%d" % (len(lead) + 1))
    ctx.sample({"mesh": d, "stats": ux.mesh_stats(m), "lead": lead, "source": case["source"]})
