"""C14 - arc predicates and intersections agree with exact spherical geometry.

Every case is built from integer direction vectors; its expected answer is decided with Python
integers (uxmon/exact.py).  The library receives the float64 normalisation of the same vectors.
Cases closer than the margin to a decision boundary are never generated.
"""

import math
import warnings

import numpy as np

from .. import core, exact as X

PROPERTY = "C14"
SHARDS = {"quick": 8, "thorough": 16}
RULE = (
    "cases: integer direction vectors (components up to 1e6) -> exact expectation in integer arithmetic; the library "
    "gets their float64 normalisation. point_within_gca: points exactly on the arc (s*a+t*b, s,t>0), exactly on the "
    "great circle but outside the arc, and off the plane by 2e-6..1e-3 rad (near-miss) or anywhere; "
    "gca_gca_intersection: arc pairs built through a common integer direction (certain crossing), through a common "
    "direction outside one arc (certain non-crossing, circles still cross there), and random pairs; crossing angle "
    "classes generic (>=1e-2) and shallow (1e-5..1e-2); extreme_gca_latitude: apex inside / outside the arc decided "
    "exactly. Placements: generic, through a pole, endpoint at a pole, endpoint 2e-6..1e-3 rad beside a pole, along a meridian (incl. planes x=0, y=0), along the "
    "equator, across lon=180 and across lon=0, short arcs (4e-5..1.2e-3 rad, also both arcs of a crossing short, also shallow). Each case is repeated under endpoint swap, arc swap and 6 exact rotations "
    "about the polar axis (quarter turns and Pythagorean triples), expectation re-derived exactly and results compared "
    "with each other. Margins: every generated case is >= 2e-6 rad (10x float safety) from every decision boundary. "
    "Every third call is made twice on the very same array objects: same answer, arguments left as given. Non-trivial = special placement or an expected crossing / expected True."
)
ASSUMPTIONS = [
    "is_directed=False (the documented default) for point_within_gca; fma_disabled=True (default)",
    "returned intersection points are compared at 1e-9 rad + 8 eps (1/sin L1 + 1/sin L2) / sin(plane angle) (conditioning of the intersection of two planes given by short arcs); extreme latitudes at 1e-12 rad relaxed to the conditioning of asin near a pole",
    "margin of the property (1e-6 rad) is applied with a factor 2..10 so that float measurement of the margin cannot misclassify",
]
MIN_EVAL = {
    "quick": {"pwg_on_arc": 2000, "pwg_outside_arc": 2000, "pwg_off_plane": 2000, "gca_count": 4000, "gca_position": 1500, "extreme_lat": 3000, "symmetry": 5000},
    "thorough": {"pwg_on_arc": 400000, "pwg_outside_arc": 400000, "pwg_off_plane": 400000, "gca_count": 700000, "gca_position": 250000, "extreme_lat": 600000, "symmetry": 1000000},
}

MARGIN = 2e-6
PLACEMENTS = ["generic", "through_pole", "endpoint_pole", "endpoint_near_pole", "meridian", "meridian_x0", "meridian_y0", "equator", "across_180", "across_0", "short", "short"]
MIN_LEN = {"short": 4e-5}  # edges of high-resolution meshes: 4e-5 .. 1.2e-3 rad (250 m .. 8 km)


def cases(tier, seed):
    n = 160 if tier == "quick" else 100000
    for i in range(n):
        yield {"chunk": i, "seed": seed, "n": 40}


# ---------------------------------------------------------------- integer generators
def _ivec(rng, lim=10**6):
    while True:
        v = tuple(int(x) for x in rng.integers(-lim, lim + 1, size=3))
        if any(v):
            return v


def _arc(rng, placement):
    """Integer endpoints (a, b) of a minor arc of length in (1e-3, pi-1e-3)."""
    for _ in range(200):
        if placement == "generic":
            a, b = _ivec(rng), _ivec(rng)
            if rng.random() < 0.3:  # short arc
                k = int(rng.integers(20, 5000))
                d = _ivec(rng, 1000)
                b = X.lin(k, a, int(rng.integers(1, 2000)), d)
        elif placement == "short":
            a = _ivec(rng)
            K = int(10 ** rng.uniform(0, 1.6))
            b = X.lin(K, a, 1, _ivec(rng, 1000))
            if rng.random() < 0.5:
                a, b = b, a
        elif placement == "through_pole":
            x, y = int(rng.integers(-1000, 1001)), int(rng.integers(-1000, 1001))
            if x == 0 and y == 0:
                continue
            s = int(rng.choice([-1, 1]))
            k1, k2 = int(rng.integers(1, 60)), int(rng.integers(1, 60))
            a = (x * k1, y * k1, s * int(rng.integers(1, 40000)))
            b = (-x * k2, -y * k2, s * int(rng.integers(1, 40000)))
        elif placement == "endpoint_pole":
            s = int(rng.choice([-1, 1]))
            a = (0, 0, s)
            b = _ivec(rng)
            if rng.random() < 0.5:
                a, b = b, a
        elif placement == "endpoint_near_pole":
            # an end point 2e-6 .. 1e-3 rad away from a pole (inside and outside the library's pole-snap band of ~1.4e-4 rad)
            s = int(rng.choice([-1, 1]))
            off = 10 ** rng.uniform(-5.7, -3)
            big = 10**6
            r = max(1, int(round(big * off)))
            th = rng.uniform(0, 2 * math.pi)
            a = (int(round(r * math.cos(th))), int(round(r * math.sin(th))), s * big)
            if a[0] == 0 and a[1] == 0:
                a = (1, 0, s * big)
            b = _ivec(rng)
            if rng.random() < 0.5:
                a, b = b, a
        elif placement == "meridian":
            x, y = int(rng.integers(-1000, 1001)), int(rng.integers(-1000, 1001))
            if x == 0 and y == 0:
                continue
            k1, k2 = int(rng.integers(1, 60)), int(rng.integers(1, 60))
            a = (x * k1, y * k1, int(rng.integers(-40000, 40001)))
            b = (x * k2, y * k2, int(rng.integers(-40000, 40001)))
        elif placement == "meridian_x0":
            s = int(rng.choice([-1, 1]))
            a = (0, s * int(rng.integers(1, 10**6)), int(rng.integers(-10**6, 10**6)))
            b = (0, s * int(rng.integers(1, 10**6)), int(rng.integers(-10**6, 10**6)))
        elif placement == "meridian_y0":
            s = int(rng.choice([-1, 1]))
            a = (s * int(rng.integers(1, 10**6)), 0, int(rng.integers(-10**6, 10**6)))
            b = (s * int(rng.integers(1, 10**6)), 0, int(rng.integers(-10**6, 10**6)))
        elif placement == "equator":
            a = (int(rng.integers(-10**6, 10**6)), int(rng.integers(-10**6, 10**6)), 0)
            b = (int(rng.integers(-10**6, 10**6)), int(rng.integers(-10**6, 10**6)), 0)
        elif placement == "across_180":
            a = (-int(rng.integers(1000, 10**6)), int(rng.integers(1, 10**5)), int(rng.integers(-10**6, 10**6)))
            b = (-int(rng.integers(1000, 10**6)), -int(rng.integers(1, 10**5)), int(rng.integers(-10**6, 10**6)))
        elif placement == "across_0":
            a = (int(rng.integers(1000, 10**6)), int(rng.integers(1, 10**5)), int(rng.integers(-10**6, 10**6)))
            b = (int(rng.integers(1000, 10**6)), -int(rng.integers(1, 10**5)), int(rng.integers(-10**6, 10**6)))
        else:
            raise ValueError(placement)
        if not any(a) or not any(b) or X.is_zero(X.cross(a, b)):
            continue
        w = X.ang(X.fvec(a), X.fvec(b))
        if placement == "short":
            if MIN_LEN["short"] < w < 1.2e-3:
                return a, b
        elif 1e-3 < w < math.pi - 1e-3:
            return a, b
    raise RuntimeError("no arc for " + placement)


def _reduce(v):
    g = math.gcd(math.gcd(abs(v[0]), abs(v[1])), abs(v[2]))
    return (v[0] // g, v[1] // g, v[2] // g) if g > 1 else v


# ---------------------------------------------------------------- library calls
def _lib():
    from uxarray.grid.arcs import point_within_gca, extreme_gca_latitude
    from uxarray.grid.intersections import gca_gca_intersection

    return point_within_gca, extreme_gca_latitude, gca_gca_intersection


_BUFS = {}


def _reuse(args):
    """Hand the library the same ndarray objects on every call, refilled in place: a result must depend on the values it is
    given, never on the identity of the array that carries them (callers commonly reuse buffers)."""
    out = []
    for i, a in enumerate(args):
        if isinstance(a, np.ndarray):
            key = (i, a.shape)
            if key not in _BUFS:
                _BUFS[key] = np.empty(a.shape, dtype=float)
            _BUFS[key][...] = a
            out.append(_BUFS[key])
        else:
            out.append(a)
    return out


_NCALL = [0]


def _same(r1, r2):
    try:
        return bool(np.array_equal(np.asarray(r1, dtype=float), np.asarray(r2, dtype=float), equal_nan=True))
    except Exception:
        return r1 == r2


def _call(ctx, fn, sig, *args):
    args = _reuse(args)
    _NCALL[0] += 1
    try:
        with warnings.catch_warnings():
            warnings.simplefilter("ignore")
            with np.errstate(all="ignore"):
                if _NCALL[0] % 3:
                    return True, fn(*args)
                # every third call: the very same array objects are handed over a second time (no refill in between) - the
                # answer to the same question is the same, and the caller's arrays still hold what they were given
                given = [np.array(a, copy=True) if isinstance(a, np.ndarray) else None for a in args]
                r = fn(*args)
                kept = all(g is None or np.array_equal(g, a) for g, a in zip(given, args))
                r2 = fn(*args)
                ctx.check("repeatable", kept and _same(r, r2), {"fn": sig.get("fn"), "arguments_kept": kept, "which": sig.get("which", "")},
                          {"first": np.asarray(r, dtype=float).tolist(), "second": np.asarray(r2, dtype=float).tolist(), "given": [g.tolist() for g in given if g is not None],
                           "now": [np.asarray(a).tolist() for a in args if isinstance(a, np.ndarray)]})
                return True, r
    except Exception as e:  # an exception on a well-formed, margin-controlled input is an observation
        ctx.check("no_exception", False, dict(sig, exc=core.exc_sig(e)), {"exc": repr(e), "args": [np.asarray(a).tolist() if not isinstance(a, str) else a for a in args]})
        return False, None


VARIANTS = [("id", 0), ("swap", 0), ("rot", 1), ("rot", 2), ("rot", 3), ("rot", 4), ("rot", 5), ("rot", 6)]


def _variant_pts(vs, var):
    """Apply a symmetry to a list of integer directions (rotation) - swaps are done by the caller."""
    kind, k = var
    if kind == "rot":
        return [X.rot_z_exact(v, k) for v in vs]
    return list(vs)


# ---------------------------------------------------------------- the three monitors
def check_pwg(ctx, rng, placement):
    pwg, _, _ = _lib()
    a, b = _arc(rng, placement)
    n = X.cross(a, b)
    kind = ["on", "outside", "off_near", "off_far"][int(rng.integers(0, 4))]
    if kind == "on":
        s, t = int(rng.integers(1, 1000)), int(rng.integers(1, 1000))
        p = X.lin(s, a, t, b)
        want = True
    elif kind == "outside":
        s, t = int(rng.integers(1, 1000)), int(rng.integers(1, 1000))
        p = [X.lin(s, a, -t, b), X.lin(-s, a, t, b), X.lin(-s, a, -t, b)][int(rng.integers(0, 3))]
        want = False
    else:
        s, t = int(rng.integers(1, 1000)), int(rng.integers(1, 1000))
        base = X.lin(s, a, t, b) if rng.random() < 0.8 else X.lin(s, a, -t, b)
        if kind == "off_near":
            # offset angle ~ j|n| / (K|base|) in [2e-6, 1e-3]
            target = 10 ** rng.uniform(math.log10(2.5e-6), -3)
            nb = math.sqrt(float(X.dot(base, base)))
            nn = math.sqrt(float(X.dot(n, n)))
            K = max(1, int(round(nn / (nb * target))))
            j = 1 if K > 1 else max(1, int(round(target * nb / nn)))
            p = X.lin(K, base, int(rng.choice([-1, 1])) * j, n)
        else:
            p = _ivec(rng)
        want = False
    if X.is_zero(p):
        return
    p = _reduce(p)
    A, B, P = X.fvec(a), X.fvec(b), X.fvec(p)
    # margins (float, 1e-15 accurate): distance to endpoints, distance to plane for off cases
    if min(X.ang(P, A), X.ang(P, B)) < 5 * MARGIN:
        return
    if kind in ("outside",) and min(X.ang(P, -A), X.ang(P, -B)) < 5 * MARGIN:
        pass
    exact_on = X.on_arc(p, a, b)
    if kind == "on" and not exact_on or kind == "outside" and (exact_on or not X.on_circle(p, a, b)):
        raise AssertionError("generator/oracle disagree (pwg %s)" % kind)
    if kind.startswith("off"):
        nf = X.fvec(n)
        off = abs(math.asin(max(-1.0, min(1.0, float(np.dot(nf, P))))))
        if off < MARGIN:
            return
        if exact_on:
            return
    clause = {"on": "pwg_on_arc", "outside": "pwg_outside_arc", "off_near": "pwg_off_plane", "off_far": "pwg_off_plane"}[kind]
    results = []
    for var in VARIANTS:
        a2, b2, p2 = _variant_pts([a, b, p], var)
        if var[0] == "swap":
            a2, b2 = b2, a2
        A2, B2, P2 = X.fvec(a2), X.fvec(b2), X.fvec(p2)
        sig = {"fn": "point_within_gca", "kind": kind, "placement": placement, "variant": var[0]}
        ok, r = _call(ctx, pwg, sig, P2, np.array([A2, B2]))
        if not ok:
            results.append("exc")
            continue
        r = bool(r)
        results.append(r)
        ctx.check(clause, r == want, sig, {"a": a2, "b": b2, "p": p2, "got": r, "want": want, "arc_len": X.ang(A2, B2)})
    ctx.check("symmetry", len(set(map(str, results))) == 1, {"fn": "point_within_gca", "kind": kind, "placement": placement},
              {"a": a, "b": b, "p": p, "results": [str(r) for r in results], "variants": VARIANTS})
    ctx.observe("pwg_" + kind)
    ctx.sample({"fn": "point_within_gca", "a": a, "b": b, "p": p, "kind": kind, "placement": placement, "want": want, "results_under_8_symmetries": [str(r) for r in results]}, limit=2)
    if placement != "generic" or want:
        ctx.mark_nontrivial(("pwg", a, b, p))


def check_gca(ctx, rng, placement):
    _, _, gca = _lib()
    a, b = _arc(rng, placement)
    mode = ["cross", "cross", "miss_collinear", "random"][int(rng.integers(0, 4))]
    s, t = int(rng.integers(1, 400)), int(rng.integers(1, 400))
    if mode == "random":
        c, d = _arc(rng, PLACEMENTS[int(rng.integers(0, len(PLACEMENTS)))] if rng.random() < 0.5 else "generic")
    else:
        q = _reduce(X.lin(s, a, t, b))  # a direction strictly inside arc (a,b)
        shallow = rng.random() < 0.3
        n = X.cross(a, b)
        if shallow:
            # second circle nearly the same as the first: u = direction along the arc + tiny normal part
            along = X.lin(1, b, -1, a)
            tgt = 10 ** rng.uniform(-5 + 0.4, -2)
            na = math.sqrt(float(X.dot(along, along)))
            nn = math.sqrt(float(X.dot(n, n)))
            K = max(1, int(round(nn / (na * tgt))))
            u = X.lin(K, along, 1, n)
        else:
            u = _ivec(rng, 10**4)
        k1, k2 = int(rng.integers(1, 300)), int(rng.integers(1, 300))
        m1, m2 = int(rng.integers(1, 300)), int(rng.integers(1, 300))
        if placement == "short" and rng.random() < 0.8:
            # the second arc is short as well (two mesh edges of a high-resolution region): q scaled up so that q +- m*u spans 4e-5..1e-3 rad
            qn = math.sqrt(float(X.dot(q, q)))
            un = math.sqrt(float(X.dot(u, u)))
            tgt = 10 ** rng.uniform(-4.2, -3.1)
            f = max(1, int(round((m1 + m2) * un / (qn * tgt * min(k1, k2)))))
            qq = (q[0] * f, q[1] * f, q[2] * f)
        elif shallow:
            # keep the second arc shorter than pi: scale q up so that the offsets are moderate
            qn = math.sqrt(float(X.dot(q, q)))
            un = math.sqrt(float(X.dot(u, u)))
            f = max(1, int(un / qn))
            qq = (q[0] * f, q[1] * f, q[2] * f)
        else:
            qq = q
        if mode == "cross":
            c, d = X.lin(k1, qq, m1, u), X.lin(k2, qq, -m2, u)
        else:  # both endpoints on the same side of q: the circles meet at q but arc (c,d) does not reach it
            c, d = X.lin(k1, qq, m1, u), X.lin(k2, qq, m1 + m2, u)
            if k1 * (m1 + m2) == k2 * m1:
                return
    if X.is_zero(c) or X.is_zero(d):
        return
    c, d = _reduce(c), _reduce(d)
    if X.is_zero(X.cross(c, d)):
        return
    A, B, C, D = X.fvec(a), X.fvec(b), X.fvec(c), X.fvec(d)
    w2 = X.ang(C, D)
    if not ((MIN_LEN["short"] if placement == "short" else 1e-3) < w2 < math.pi - 1e-3):
        return
    if placement == "short":
        ctx.observe("gca_both_short" if w2 < 1.2e-3 else "gca_short_vs_long")
    x = X.crossing_dir(a, b, c, d)
    if X.is_zero(x):
        return
    # margins: plane angle, and distance of +-x from all four endpoints
    plane_angle = X.ang(X.fvec(X.cross(a, b)), X.fvec(X.cross(c, d)))
    plane_angle = min(plane_angle, math.pi - plane_angle)
    if plane_angle < 5 * MARGIN:
        return
    Xf = X.fvec(x)
    for E in (A, B, C, D):
        if min(X.ang(Xf, E), X.ang(-Xf, E)) < 5 * MARGIN:
            return
    want = X.arc_arc_common(a, b, c, d)
    if mode == "cross" and len(want) != 1 or mode == "miss_collinear" and len(want) != 0:
        raise AssertionError("generator/oracle disagree (gca %s)" % mode)
    angle_class = "shallow" if plane_angle < 1e-2 else "generic"
    results = []
    for var in VARIANTS + [("arcswap", 0)]:
        pts = _variant_pts([a, b, c, d] + want, var)
        a2, b2, c2, d2 = pts[:4]
        w2l = pts[4:]
        if var[0] == "swap":
            a2, b2 = b2, a2
            c2, d2 = d2, c2
        if var[0] == "arcswap":
            a2, b2, c2, d2 = c2, d2, a2, b2
        sig = {"fn": "gca_gca_intersection", "expect": len(want), "placement": placement, "angle": angle_class, "variant": var[0]}
        ok, r = _call(ctx, gca, sig, np.array([X.fvec(a2), X.fvec(b2)]), np.array([X.fvec(c2), X.fvec(d2)]))
        if not ok:
            results.append("exc")
            continue
        r = np.asarray(r, dtype=float).reshape(-1, 3) if np.size(r) else np.zeros((0, 3))
        # de-duplicate returned points (the same point twice is one point)
        uniq = []
        for pnt in r:
            if not any(X.ang(pnt, u) < 1e-9 for u in uniq):
                uniq.append(pnt)
        results.append(len(uniq))
        ctx.check("gca_count", len(uniq) == len(want), sig,
                  {"arc1": [a2, b2], "arc2": [c2, d2], "got": [u.tolist() for u in uniq], "want": [X.fvec(w).tolist() for w in w2l], "plane_angle": plane_angle})
        if len(uniq) == len(want) == 1:
            err = X.ang(uniq[0] / np.linalg.norm(uniq[0]), X.fvec(w2l[0]))
            # conditioning: each plane normal a x b carries a direction error of eps / sin(arc length), their cross product divides by sin(plane angle)
            ptol = 1e-9 + 8 * 1.2e-16 * (1.0 / math.sin(X.ang(A, B)) + 1.0 / math.sin(w2)) / math.sin(plane_angle)
            ctx.check("gca_position", err <= ptol and abs(np.linalg.norm(uniq[0]) - 1) < 1e-9, sig, {"arc1": [a2, b2], "arc2": [c2, d2], "err_rad": err, "tol": ptol})
    ctx.check("symmetry", len(set(map(str, results))) == 1, {"fn": "gca_gca_intersection", "expect": len(want), "placement": placement, "angle": angle_class},
              {"arc1": [a, b], "arc2": [c, d], "results": [str(r) for r in results]})
    ctx.observe("gca_expect_%d" % len(want))
    if len(ctx.samples) < 4:
        ctx.samples.append({"fn": "gca_gca_intersection", "arc1": [a, b], "arc2": [c, d], "mode": mode, "placement": placement, "plane_angle": plane_angle, "want_n": len(want), "results_under_9_symmetries": [str(r) for r in results]})
    ctx.observe("gca_angle_" + angle_class)
    if placement != "generic" or want:
        ctx.mark_nontrivial(("gca", a, b, c, d))


def check_extreme(ctx, rng, placement):
    _, ext, _ = _lib()
    a, b = _arc(rng, placement)
    if placement == "short" and rng.random() < 0.7:
        # a short, roughly east-west arc that contains its great circle's turning point (the top of a cell edge at high latitude)
        for _ in range(50):
            n = _ivec(rng, 2000)
            t = X.cross(n, (0, 0, 1))
            if X.is_zero(t):
                continue
            ap = _reduce(X.cross(t, n))  # direction of extreme latitude on the circle with normal n (sign irrelevant: +-ap are both apexes)
            t = _reduce(t)
            apn, tn = math.sqrt(float(X.dot(ap, ap))), math.sqrt(float(X.dot(t, t)))
            m1, m2 = int(rng.integers(1, 200)), int(rng.integers(1, 200))
            tgt = 10 ** rng.uniform(-4.2, -2.4)
            K = max(1, int(round((m1 + m2) * tn / (apn * tgt))))
            a2_, b2_ = X.lin(K, ap, m1, t), X.lin(K, ap, -m2, t)
            w = X.ang(X.fvec(a2_), X.fvec(b2_))
            if MIN_LEN["short"] < w < 5e-3 and abs(X.lat_of(ap)) < 1.56:
                a, b = a2_, b2_
                ctx.observe("extreme_short_arc_around_apex")
                break
    A, B = X.fvec(a), X.fvec(b)
    for which in ("max", "min"):
        ap = X.apex(a, b, which)
        la, lb = X.lat_of(a), X.lat_of(b)
        if ap is None:  # equator
            want, inside = 0.0, None
        else:
            AP = X.fvec(ap)
            inside = X.on_arc(ap, a, b)
            if min(X.ang(AP, A), X.ang(AP, B)) < 5 * MARGIN:
                continue  # apex within the margin of an endpoint: both answers are equal to ~1e-12 anyway, skip
            want = X.lat_of(ap) if inside else (max(la, lb) if which == "max" else min(la, lb))
        # conditioning of asin near a pole
        c = math.cos(want)
        tol = 1e-12 + min(8e-16 / max(c, 1e-300), math.sqrt(2 * 8e-16))
        res = []
        for var in VARIANTS:
            a2, b2 = _variant_pts([a, b], var)
            if var[0] == "swap":
                a2, b2 = b2, a2
            sig = {"fn": "extreme_gca_latitude", "which": which, "apex_inside": inside, "placement": placement, "variant": var[0]}
            ok, r = _call(ctx, ext, sig, np.array([X.fvec(a2), X.fvec(b2)]), which)
            if not ok:
                res.append(None)
                continue
            r = float(r)
            res.append(r)
            ctx.check("extreme_lat", abs(r - want) <= tol, sig, {"a": a2, "b": b2, "got": r, "want": want, "tol": tol})
        good = [r for r in res if r is not None]
        ctx.check("symmetry", len(good) == len(res) and (max(good) - min(good) <= 2 * tol), {"fn": "extreme_gca_latitude", "which": which, "apex_inside": inside, "placement": placement},
                  {"a": a, "b": b, "results": res})
        ctx.observe("extreme_apex_inside" if inside else "extreme_apex_outside")
        if placement != "generic" or inside:
            ctx.mark_nontrivial(("ext", a, b, which))


def run_case(ctx, case):
    rng = np.random.default_rng([case["seed"], 1414, case["chunk"]])
    for i in range(case["n"]):
        placement = PLACEMENTS[int(rng.integers(0, len(PLACEMENTS)))] if rng.random() < 0.6 else "generic"
        ctx.observe("placement_" + placement)
        which = int(rng.integers(0, 3))
        if which == 0:
            check_pwg(ctx, rng, placement)
        elif which == 1:
            check_gca(ctx, rng, placement)
        else:
            check_extreme(ctx, rng, placement)
