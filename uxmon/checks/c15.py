"""C15 - exported polygons and lines correspond one-to-one with faces."""

import math
import warnings

import numpy as np

from .. import gen, ref, ux, core

PROPERTY = "C15"
SHARDS = {"quick": 8, "thorough": 16}
RULE = (
    "cases: grids (all families incl. regular lat-lon grids with corners on lon=+-180 and pole corners, mixed face sizes, with and without "
    "antimeridian-crossing faces, faces moved across the antimeridian on purpose) x histories of 2..6 conversions drawn from "
    "{Grid.to_geodataframe, Grid.to_polycollection, Grid.to_linecollection, UxDataArray.to_geodataframe, UxDataArray.to_polycollection} x "
    "periodic_elements {exclude, split, ignore} x engine {spatialpandas, geopandas} x projection {None, Robinson(0), Robinson(-90), "
    "Mollweide(60), Orthographic} x cache / override flags x two face-centred id-valued variables. After every conversion: (1) every "
    "exported polygon is matched to the model polygon of one face (float32 lon/lat corners, or their images under the projection "
    "recomputed with cartopy) - rows must be the expected faces in order; (2) 'exclude' drops exactly the antimeridian set, 'split' pieces stay "
    "within [-180, 180], span < 180 deg and have the planar area of the unwrapped face, 'ignore' passes faces through; (3) every data value "
    "names the face whose polygon it is attached to; (4) the result equals the same call on a fresh grid (pure function of its arguments); "
    "(5) at the end of the history every object handed out earlier still has the digest it had when it was returned. Non-trivial = the grid "
    "has an antimeridian face, or a projection is used, or the history has >= 2 conversions with different arguments."
)
ASSUMPTIONS = [
    "polygons are planar lon/lat polygons stored as float32 (tolerance 2e-5 deg; projected coordinates: 3e-6 relative to the projection's extent)",
    "a face is in the antimeridian set iff two consecutive corners (closing pair included) differ by >= 180 deg in longitude (relative to the "
    "projection's central longitude when one is given); faces within 1e-4 deg of the threshold are don't-care",
    "vertex order is compared cyclically, either winding (polygon libraries normalise the winding)",
    "cartopy's transform_points is trusted for projected images",
]
MIN_EVAL = {"quick": {"polygons_are_faces": 500, "antimeridian_set": 150, "split_pieces": 60, "data_attached": 250, "pure_function": 300, "handed_out_stable": 150},
            "thorough": {"polygons_are_faces": 12000, "antimeridian_set": 12000, "split_pieces": 1400, "data_attached": 6000, "pure_function": 12000, "handed_out_stable": 3500}}

PROJ = ["none", "none", "robinson0", "robinson-90", "mollweide60", "orthographic"]
KINDS = ["grid_gdf", "grid_poly", "grid_line", "data_gdf", "data_poly"]


def cases(tier, seed):
    rng = np.random.default_rng([seed, 1515])
    n = 100 if tier == "quick" else 12000
    for i in range(n):
        d = gen.random_mesh(rng, 40 if tier == "quick" else 120, families=gen.ALL_FAMILIES)
        if i % 3 == 0 and d["family"] not in ("latlon_patch", "latlon_global"):
            d["ops"] = [o for o in d.get("ops", []) if o[0] not in ("rot", "snap")] + [["snap", [["face_am", "node_am"][i % 2], int(rng.integers(0, 1000))]]]
        L = int(rng.integers(2, 8))
        hist = []

        def argset():
            pe = ["exclude", "split", "ignore"][int(rng.integers(0, 3))]
            proj = PROJ[int(rng.integers(0, len(PROJ)))]
            if pe == "split":
                proj = "none"
            return {"periodic_elements": pe, "projection": proj, "engine": ["spatialpandas", "geopandas"][int(rng.integers(0, 2))]}

        # conversions come back to the same few argument sets (a script plots the grid, then two variables, with the same options;
        # then switches options and back): caches keyed by arguments are hit, refreshed and bypassed in every order
        pool = [argset(), argset()]
        sticky = bool(i % 2)
        for _ in range(L):
            kind = KINDS[int(rng.integers(0, len(KINDS)))]
            a = dict(pool[int(rng.integers(0, 2))]) if (sticky and rng.random() < 0.85) else argset()
            hist.append(dict(a, kind=kind, cache=bool(rng.random() < (0.6 if sticky else 0.8)), override=bool(rng.random() < 0.2), var=int(rng.integers(0, 2))))
        yield {"mesh": d, "history": hist, "seed": int(rng.integers(0, 10**6))}


_PROJ = {}


def projection(name):
    import cartopy.crs as ccrs

    if name == "none":
        return None
    if name not in _PROJ:
        _PROJ[name] = {"robinson0": lambda: ccrs.Robinson(), "robinson-90": lambda: ccrs.Robinson(central_longitude=-90), "mollweide60": lambda: ccrs.Mollweide(central_longitude=60),
                       "orthographic": lambda: ccrs.Orthographic(central_longitude=20, central_latitude=30)}[name]()
    return _PROJ[name]


# ------------------------------------------------------------------ model
def model(m, proj):
    """Per face: planar lon/lat ring (float64 of float32), projected ring, flags."""
    import cartopy.crs as ccrs

    lon, lat = m.lonlat()
    lon32 = np.asarray(lon, dtype=np.float32).astype(float)
    lat32 = np.asarray(lat, dtype=np.float32).astype(float)
    lon0 = float(proj.proj4_params.get("lon_0", 0.0)) if proj is not None else 0.0
    # longitudes relative to the central longitude; with lon_0 = 0 they are the stored ones (a corner on the antimeridian keeps its sign)
    rel = np.asarray(lon, dtype=float) if lon0 == 0.0 else np.mod(np.asarray(lon) - lon0 + 180.0, 360.0) - 180.0
    out = []
    if proj is not None:
        xy = proj.transform_points(ccrs.PlateCarree(), np.asarray(lon, dtype=float), np.asarray(lat, dtype=float))[:, :2]
        extent = max(abs(proj.x_limits[0]), abs(proj.x_limits[1]), abs(proj.y_limits[0]), abs(proj.y_limits[1]))
    for f in m.faces:
        ring = np.stack([lon32[f], lat32[f]], axis=1) if proj is None or lon0 == 0.0 else np.stack([rel[f], lat32[f]], axis=1)
        r = rel[f]
        d = np.abs(np.diff(np.append(r, r[0])))
        am = bool(np.any(d >= 180.0 + 1e-4))
        am_dc = bool(np.any(np.abs(d - 180.0) <= 1e-4))
        if lon0 != 0.0 and np.any(np.abs(np.abs(r) - 180.0) < 1e-4):
            am_dc, am = True, False  # a corner on the shifted antimeridian: which side it is put on is the projection library's choice
        # a face wider than 180 degrees of longitude without any single edge that wide is clockwise in the lon/lat plane: its planar
        # polygon denotes the complement - not demanded of 'split'
        x, y = r, np.asarray(lat)[f]
        wide = bool(np.sum(x * np.roll(y, -1) - np.roll(x, -1) * y) < 0) and not am
        if not am and not wide and len(x) >= 4 and (x.max() - x.min()) > 90:
            # very large faces: the straight-line ring in the lon/lat plane may cross itself although the great-circle face is
            # simple - such a ring is no planar polygon either (treated like 'wide')
            from shapely.geometry import Polygon

            wide = not Polygon(np.stack([x, y], axis=1)).is_valid
        item = {"ring": ring, "am": am, "am_dontcare": am_dc and not am, "wide": wide}
        if proj is not None:
            P = xy[f]
            item["proj"] = P
            item["nan"] = bool(np.any(~np.isfinite(P)))
            item["tol"] = 3e-6 * extent + 1e-3
        out.append(item)
    return out


def same_ring(A, B, tol, wrap=False):
    """cyclic equality of vertex sequences, either winding; consecutive duplicates removed first.
    wrap: longitudes are compared modulo 360 (a corner on the antimeridian may carry either sign)"""
    def dist(P, Q):
        d = np.abs(P - Q)
        if wrap:
            d[:, 0] = np.minimum(d[:, 0], np.abs(360.0 - d[:, 0]))
        return np.max(d)

    def clean(X):
        X = np.asarray(X, dtype=float)
        if len(X) == 0:
            return X
        keep = [0]
        for i in range(1, len(X)):
            if np.max(np.abs(X[i] - X[keep[-1]])) > tol:
                keep.append(i)
        X = X[keep]
        if len(X) > 1 and np.max(np.abs(X[0] - X[-1])) <= tol:
            X = X[:-1]
        return X
    A, B = clean(A), clean(B)
    if A.shape != B.shape or len(A) == 0:
        return False
    n = len(A)
    for C in (B, B[::-1]):
        for s in range(n):
            if dist(A, np.roll(C, -s, axis=0)) <= tol:
                return True
    return False


def parts_of(geom):
    """shapely geometry -> list of exterior rings (arrays)"""
    if geom is None:
        return []
    if geom.geom_type == "MultiPolygon":
        return [np.asarray(g.exterior.coords)[:, :2] for g in geom.geoms]
    if geom.geom_type == "Polygon":
        return [np.asarray(geom.exterior.coords)[:, :2]] if not geom.is_empty else []
    return []


def rows_of(obj):
    """exported object -> list of rows, each a list of rings"""
    if hasattr(obj, "get_paths") and hasattr(obj, "set_verts"):
        out = []
        for p in obj.get_paths():
            v = np.asarray(p.vertices)
            codes = p.codes
            if codes is not None and len(codes) and codes[-1] == 79:
                v = v[:-1]
            out.append([v])
        return out
    if hasattr(obj, "get_segments"):
        return [[np.asarray(s)] for s in obj.get_segments()]
    geo = obj["geometry"]
    out = []
    for g in geo.values:
        try:
            if hasattr(g, "to_shapely"):
                g = g.to_shapely()
            out.append(parts_of(g))
        except Exception:
            out.append([np.full((1, 2), np.nan)])  # a geometry that cannot even be read back (e.g. NaN vertices)
    return out


def ring_area(R):
    x, y = R[:, 0], R[:, 1]
    return 0.5 * abs(float(np.sum(x * np.roll(y, -1) - np.roll(x, -1) * y)))


def unwrapped_area(ring):
    """planar area of the face polygon with longitudes unwrapped along the ring (consecutive steps < 180)"""
    lon = ring[:, 0].copy()
    for i in range(1, len(lon)):
        while lon[i] - lon[i - 1] > 180:
            lon[i] -= 360
        while lon[i] - lon[i - 1] < -180:
            lon[i] += 360
    return ring_area(np.stack([lon, ring[:, 1]], axis=1)), float(abs((lon[0] - lon[-1])))


def digest_obj(obj):
    rows = rows_of(obj)
    cols = sorted(map(str, obj.columns)) if hasattr(obj, "columns") else []
    vals = None
    if hasattr(obj, "columns"):
        extra = [c for c in obj.columns if c != "geometry"]
        vals = {str(c): np.asarray(obj[c].values, dtype=float).round(6).tolist() for c in extra}
    elif hasattr(obj, "get_array") and obj.get_array() is not None:
        vals = np.asarray(obj.get_array(), dtype=float).round(6).tolist()
    return core.jhash({"rows": [[np.round(np.asarray(r, dtype=float), 4).tolist() for r in row] for row in rows], "cols": cols, "vals": vals})


def convert(g, da, step):
    proj = projection(step["projection"])
    kw = dict(periodic_elements=step["periodic_elements"], projection=proj, cache=step["cache"], override=step["override"])
    k = step["kind"]
    with warnings.catch_warnings():
        warnings.simplefilter("ignore")
        if k == "grid_gdf":
            return g.to_geodataframe(engine=step["engine"], **kw), None
        if k == "grid_poly":
            pc, idx = g.to_polycollection(return_indices=True, **kw)
            return pc, idx
        if k == "grid_line":
            return g.to_linecollection(**kw), None
        if k == "data_gdf":
            return da.to_geodataframe(engine=step["engine"], **kw), None
        pc, idx = da.to_polycollection(return_indices=True, **kw)
        return pc, idx


def expected_faces(M, step):
    """list of face ids expected row by row (None where the row/face is don't-care), or None if rows are not one-per-face"""
    pe = step["periodic_elements"]
    has_proj = step["projection"] != "none"
    faces = list(range(len(M)))
    if pe == "exclude":
        if any(M[f]["am_dontcare"] for f in faces):
            return None
        faces = [f for f in faces if not M[f]["am"]]
        if has_proj:
            faces = [f for f in faces if not M[f]["nan"]]
    elif pe == "ignore" and has_proj and step["kind"] in ("grid_gdf", "data_gdf"):
        # NaN polygons are excluded from data frames (exclude_nan_polygons defaults to True)
        faces = [f for f in faces if not M[f]["nan"]]
    return faces


def check_conversion(ctx, obj, idx, M, step, sig, det, values=None):
    pe = step["periodic_elements"]
    has_proj = step["projection"] != "none"
    kind = step["kind"]
    rows = rows_of(obj)
    if kind == "grid_line":
        # line segments: every polygon boundary of the expected faces must be present as a closed polyline
        exp = expected_faces(M, step)
        if exp is None or pe == "split":
            return
        key = "proj" if (has_proj and pe == "exclude") else "ring"  # 'ignore' passes the unprojected shells through
        tol = M[0]["tol"] if key == "proj" else 2e-5
        if pe == "ignore":
            exp = list(range(len(M)))
        segs = [r[0] for r in rows]
        wrap = key == "ring" and step["projection"] not in ("none", "robinson0")
        ok = len(segs) == len(exp) and all(same_ring(s, M[f][key], tol, wrap) for s, f in zip(segs, exp))
        ctx.check("polygons_are_faces", ok, dict(sig, what="line segments"), dict(det, n_rows=len(segs), n_expected=len(exp)))
        return
    if pe == "split":
        # one row per face (data frames) or pieces mapped by idx (collections)
        if kind in ("grid_gdf", "data_gdf"):
            owner = list(range(len(rows)))
            okn = len(rows) == len(M)
        else:
            owner = [int(i) for i in np.asarray(idx).reshape(-1)] if idx is not None else None
            okn = owner is not None and len(owner) == len(rows) and sorted(set(owner)) == list(range(len(M)))
        ctx.check("polygons_are_faces", okn, dict(sig, what="split: rows cover every face"), dict(det, n_rows=len(rows), n_face=len(M)))
        if not okn:
            return
        pieces = {}
        for r, f in zip(rows, owner):
            pieces.setdefault(f, []).extend(r)
        for f, item in enumerate(M):
            ps = pieces.get(f, [])
            if item["am_dontcare"] or item["wide"]:
                continue
            if not item["am"]:
                ok = len(ps) == 1 and same_ring(ps[0], item["ring"], 2e-5)
                ctx.check("polygons_are_faces", ok, dict(sig, what="split: untouched face"), dict(det, face=f, n_pieces=len(ps)))
                continue
            area, closure = unwrapped_area(item["ring"])
            pole = closure > 180 or bool(np.any(np.abs(item["ring"][:, 1]) >= 90 - 1e-6))  # winds around / touches a pole: no planar reference
            # ... or has an edge whose end points lie 180 degrees of longitude apart: that great-circle edge runs through the pole itself
            _dl = np.abs(np.mod(np.diff(np.append(item["ring"][:, 0], item["ring"][0, 0])) + 180.0, 360.0) - 180.0)
            pole = pole or bool(np.any(np.abs(_dl - 180.0) < 1e-4))
            inside = all(np.all(p[:, 0] >= -180 - 2e-5) and np.all(p[:, 0] <= 180 + 2e-5) for p in ps)
            narrow = all((p[:, 0].max() - p[:, 0].min()) < 180 + 2e-5 for p in ps) or pole
            tot = sum(ring_area(p) for p in ps)
            # the cut follows the great circle of the crossing edge, not the straight lon/lat segment: the pieces cover the same face,
            # their planar area is only roughly that of the unwrapped polygon
            okarea = tot > 0 or pole
            # every corner of the face is a vertex of some piece (longitude modulo 360); every other vertex lies on the cut or at a pole
            allv = np.concatenate(ps) if ps else np.zeros((0, 2))
            def has(c):
                return len(allv) > 0 and bool(np.any((np.abs(allv[:, 1] - c[1]) < 2e-5) & (np.abs(np.mod(allv[:, 0] - c[0] + 180, 360) - 180) < 2e-5)))
            corners = all(has(c) for c in item["ring"] if abs(c[1]) < 90 - 1e-6)
            def is_corner(v):
                R = item["ring"]
                return bool(np.any((np.abs(R[:, 1] - v[1]) < 2e-5) & (np.abs(np.mod(R[:, 0] - v[0] + 180, 360) - 180) < 2e-5)))
            extra_ok = all(is_corner(v) or abs(abs(v[0]) - 180) < 2e-5 or abs(abs(v[1]) - 90) < 2e-5 for v in allv)
            good = len(ps) >= 1 and inside and narrow and okarea and corners and extra_ok
            # mechanism feature: the face only touches lon = +-180 with one corner whose stored sign is the far side's
            R = item["ring"]
            on = np.abs(np.abs(R[:, 0]) - 180.0) < 1e-6
            touch = bool(on.sum() == 1 and np.all(np.sign(R[~on, 0]) == -np.sign(R[on, 0][0])))
            ctx.check("split_pieces", good, dict(sig, pole_enclosing=pole, single_corner_on_antimeridian_far_sign=touch, why="" if good else ("outside" if not inside else "spans" if not narrow else "area" if not okarea else "corner_missing" if not corners else "stray_vertex")),
                      dict(det, face=f, n_pieces=len(ps), area_pieces=tot, area_face=area, pieces=[np.round(p, 4).tolist() for p in ps][:3], ring=np.round(item["ring"], 4).tolist()))
            ctx.observe("split_faces_checked")
        if values is not None:
            v = np.asarray(values, dtype=float).reshape(-1)
            ok = len(v) == len(owner) and all(abs(v[i] - owner[i]) < 1e-6 for i in range(len(owner)))
            ctx.check("data_attached", ok, dict(sig, what="split"), dict(det, values=v[:10].tolist(), owners=owner[:10]))
        return
    exp = expected_faces(M, step)
    if exp is None:
        return
    key = "proj" if has_proj and pe != "ignore_raw" else "ring"
    if pe == "ignore" and has_proj and kind in ("grid_poly", "data_poly"):
        key = "ring"  # collections pass the unprojected shells through and carry the projection as their transform
    tol = M[0]["tol"] if key == "proj" else 2e-5
    amset_ok = True
    if pe == "exclude":
        # rows must be exactly the non-antimeridian faces
        amset_ok = len(rows) == len(exp)
        ctx.check("antimeridian_set", amset_ok, sig, dict(det, n_rows=len(rows), n_expected=len(exp), n_face=len(M), antimeridian=[f for f in range(len(M)) if M[f]["am"]][:10]))
    else:
        ctx.check("antimeridian_set", True, sig)
    ok = len(rows) == len(exp)
    bad = None
    if ok:
        for r, f in zip(rows, exp):
            if M[f].get("nan") and key == "proj":
                continue
            if len(r) != 1 or not same_ring(r[0], M[f][key], tol, key == "ring" and step["projection"] not in ("none", "robinson0")):
                ok, bad = False, {"face": f, "got": np.asarray(r[0])[:6].tolist() if r else None, "want": np.asarray(M[f][key])[:6].tolist()}
                break
    ctx.check("polygons_are_faces", ok, dict(sig, what="rows are the expected faces in order"), dict(det, n_rows=len(rows), n_expected=len(exp), **(bad or {})))
    if values is not None:
        v = np.asarray(values, dtype=float).reshape(-1)
        okv = len(v) == len(exp) and all(abs(v[i] - exp[i]) < 1e-6 for i in range(len(exp)))
        ctx.check("data_attached", okv, dict(sig, what=pe), dict(det, values=v[:10].tolist(), expected=exp[:10]))


def run_case(ctx, case):
    U = ux.ux()
    m = gen.build(case["mesh"])
    if m.n_face > 400:
        return
    # plotting geometry is single precision by design (7.6e-6 degrees at lon 128): meshes with edges below ~1e-3 degrees cannot be
    # told from degenerate ones at the comparison tolerance (2e-5 degrees) - not judged here
    if min(float(ref.angle(m.xyz[a], m.xyz[b])) for f in m.faces for a, b in zip(f, f[1:] + f[:1])) < 2e-5:
        ctx.observe("skipped_edges_below_single_precision_resolution")
        return
    g = ux.grid_from_mesh(m)
    data = [U.UxDataArray(np.arange(m.n_face, dtype=float), dims=["n_face"], uxgrid=g, name="ids"),
            U.UxDataArray(np.arange(m.n_face, dtype=float), dims=["n_face"], uxgrid=g, name="ids_b")]
    models = {}
    handed = []
    any_am = False
    for s_i, step in enumerate(case["history"]):
        if step["projection"] not in models:
            models[step["projection"]] = model(m, projection(step["projection"]))
        M = models[step["projection"]]
        any_am = any_am or any(f["am"] for f in M)
        sig = {"kind": step["kind"], "periodic_elements": step["periodic_elements"], "projection": step["projection"], "engine": step["engine"] if "gdf" in step["kind"] else "",
               "step": min(s_i, 2)}
        det = {"history": case["history"][: s_i + 1], "mesh": case["mesh"]}
        try:
            obj, idx = convert(g, data[step["var"]], step)
        except Exception as e:
            exp0 = expected_faces(M, step) if step["periodic_elements"] != "split" else [0]
            if exp0 is not None and len(exp0) == 0:
                ctx.observe("empty_result_reported_by_exception")  # nothing to export: an error is admissible
                continue
            if step["periodic_elements"] == "split" and any(f["wide"] or (f["am"] and unwrapped_area(f["ring"])[1] > 180) or np.any(np.abs(f["ring"][:, 1]) >= 90 - 1e-6) for f in M):
                # faces wider than 180 degrees of longitude, winding around a pole, with a corner at a pole or whose lon/lat ring crosses itself have no planar polygon to cut
                ctx.observe("split_rejected_grid_with_polar_or_wide_face")
                continue
            ctx.check("no_exception", False, dict(sig, exc=core.exc_sig(e), exc_type=type(e).__name__), dict(det, exc=repr(e)[:300]))
            continue
        ctx.check("no_exception", True)
        values = None
        if step["kind"] == "data_gdf":
            name = data[step["var"]].name
            cols = [c for c in obj.columns if c != "geometry"]
            ctx.check("data_attached", cols == [name], dict(sig, what="columns"), dict(det, columns=list(map(str, obj.columns)), want=["geometry", name]))
            values = obj[name].values if name in obj.columns else None
        elif step["kind"] == "data_poly":
            values = obj.get_array()
        elif step["kind"] == "grid_gdf":
            ctx.check("data_attached", [c for c in obj.columns if c != "geometry"] == [], dict(sig, what="grid frame has only a geometry column"), dict(det, columns=list(map(str, obj.columns))))
        try:
            check_conversion(ctx, obj, idx, M, step, sig, det, values)
        except Exception as e:
            ctx.harness_error("check_conversion", e)
        # pure function of the arguments: same call on a fresh grid
        try:
            fresh = ux.grid_from_mesh(m)
            fda = U.UxDataArray(np.arange(m.n_face, dtype=float), dims=["n_face"], uxgrid=fresh, name=data[step["var"]].name)
            fobj, fidx = convert(fresh, fda, dict(step, cache=True, override=False))
            same = digest_obj(obj) == digest_obj(fobj) and (idx is None or list(np.asarray(idx).reshape(-1)) == list(np.asarray(fidx).reshape(-1)))
            ctx.check("pure_function", same, sig, dict(det, rows=len(rows_of(obj)), fresh_rows=len(rows_of(fobj))))
        except Exception as e:
            ctx.check("no_exception", False, dict(sig, stage="fresh", exc=core.exc_sig(e)), dict(det, exc=repr(e)[:300]))
        handed.append((s_i, step, obj, digest_obj(obj)))
        ctx.observe("conv_" + step["kind"])
        ctx.observe("pe_" + step["periodic_elements"])
        ctx.observe("proj_" + step["projection"])
    for s_i, step, obj, d0 in handed:
        try:
            d1 = digest_obj(obj)
        except Exception:
            d1 = "exc"
        ctx.check("handed_out_stable", d1 == d0, {"kind": step["kind"], "later": "+".join(sorted({h["kind"] for h in case["history"][s_i + 1:]}))[:60]},
                  {"step": s_i, "history": case["history"], "mesh": case["mesh"]})
    if any_am or any(s["projection"] != "none" for s in case["history"]) or len({(s["kind"], s["periodic_elements"], s["projection"]) for s in case["history"]}) >= 2:
        ctx.mark_nontrivial()
    if any_am:
        ctx.observe("grids_with_antimeridian_faces")
    ctx.sample({"mesh": case["mesh"], "history": case["history"], "n_face": m.n_face, "antimeridian_faces": [i for i, f in enumerate(models[case["history"][0]["projection"]]) if f["am"]][:10]}, limit=3)
