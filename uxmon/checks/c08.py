"""C08 - reading from a grid never changes what any grid reports.

Trace checker "every observation is a function of (source, op, args) only": each op of the catalogue is first
observed on its own brand-new grid of the source (the reference table), then histories are run and every event is
compared with the table online; a sentinel watches the library's module-level constants after every event; a
JIT-off mode records value fingerprints of the same observations that are compared across modes by the runner.
"""

import hashlib
import json
import math
import warnings

import numpy as np

from .. import gen, ref, ux, core, dialects

PROPERTY = "C08"
SHARDS = {"quick": 8, "thorough": 16}
TIMEOUT = {"quick": 900, "thorough": 4 * 3600}
MODES = {
    # workqueue threading layer: the reference processes are forked, which GNU OpenMP does not survive
    "quick": [{"name": "jit", "env": {"NUMBA_THREADING_LAYER": "workqueue"}}, {"name": "jit-off", "env": {"NUMBA_DISABLE_JIT": "1"}}],
    "thorough": [{"name": "jit+boundscheck", "env": {"NUMBA_BOUNDSCHECK": "1", "NUMBA_THREADING_LAYER": "workqueue"}}, {"name": "jit-off", "env": {"NUMBA_DISABLE_JIT": "1"}}],
}
RULE = (
    "cases: sources (explicit topology, MPAS with all optional tables, UGRID dataset, face vertices) x (i) the pairwise walk - for ordered "
    "pairs (op_i, op_j) of the ~95-entry catalogue op_i runs first on grid A (same-grid pair) or on a grid B of another source "
    "(cross-grid pair), then op_j is observed on A; in quick every same-grid pair that starts with a call, a third of those that start with an attribute read and a quarter of the cross-grid pairs; all 2 x 95^2 in thorough; (ii) random "
    "histories of 3..25 ops over 1..3 grids biased towards repeating an op with other arguments. Catalogue: every lazily computed "
    "Grid attribute, compute_face_areas / calculate_total_face_area over (rule, order, latlon), to_xarray x 3 formats, "
    "to_geodataframe / to_polycollection / to_linecollection over (periodic_elements, engine, projection, cache, override), ball and k-d "
    "trees over (kind, coordinate system, reconstruct) with a fixed query, isel, subset, cross-section, get_dual, chunk, copy, repr. "
    "Oracle: the observation's digest equals the digest the same op gives on a brand-new grid of the same source (exports: superset "
    "of the fresh export, extra variables equal to the property of that name); module-level constants of uxarray.conventions.* / "
    "uxarray.constants / numba.config.DISABLE_JIT hashed before and after every event; value fingerprints (n, sum, index-weighted sum) "
    "of every observation compared between JIT on and JIT off at rtol 1e-9. Non-trivial = a history with >= 2 ops."
)
ASSUMPTIONS = [
    "mutators (construct_face_centers, normalize_cartesian_coordinates, setters) are not part of the catalogue",
    "helper attributes of variables are not part of a digest (cf_role, _FillValue, start_index are)",
    "when exact digests differ the values are compared at rtol 1e-12 (two code paths may differ in the last bits); longitudes modulo 360 (+180 and -180 are the same meridian); the Exodus time stamp variables are ignored",
    "JIT-off runs are restricted to meshes with <= 40 faces (kernels run as Python)",
]
MIN_EVAL = {"quick": {"pure_function_of_source": 1200, "module_constants_unchanged": 1200, "cross_mode": 150},
            "thorough": {"pure_function_of_source": 30000, "module_constants_unchanged": 30000, "cross_mode": 500}}


# ------------------------------------------------------------------ digests
def _round(a):
    a = np.asarray(a)
    return a


def dig_array(a):
    a = np.asarray(a)
    if a.dtype == object:
        return core.jhash([repr(x) for x in a.ravel().tolist()])
    return hashlib.sha1(np.ascontiguousarray(a).tobytes() + str(a.dtype).encode() + str(a.shape).encode()).hexdigest()[:16]


def fingerprint(a):
    """[n, sum, index-weighted sum] - robust to last-bit differences between JIT on/off"""
    try:
        a = np.asarray(a)
        if a.dtype.kind not in "fiub":
            return None
        x = a.astype(float).ravel()
        x = x[np.isfinite(x)]
        big = np.abs(x) > 1e17  # fill values
        x = np.where(big, -1.0, x)
        w = 1.0 + (np.arange(x.size) % 97) / 97.0
        return [int(a.size), float(np.sum(x)), float(np.sum(x * w))]
    except Exception:
        return None


def dig_da(da):
    v = np.asarray(da.values)
    sem = {k: repr(da.attrs[k]) for k in ("cf_role", "_FillValue", "start_index") if k in da.attrs}
    return {"dims": list(da.dims), "hash": dig_array(v), "attrs": sem}


def dig_grid(g):
    return {"node_lon": dig_array(g.node_lon.values), "node_lat": dig_array(g.node_lat.values), "fnc": dig_array(g.face_node_connectivity.values)}


VOLATILE = ("qa_records", "time_whole")  # Exodus bookkeeping: carries the wall-clock time of the export


def dig_ds(ds):
    return {k: dig_da(ds[k]) for k in sorted(ds.variables) if k not in VOLATILE}


def simplify(x):
    """value -> picklable plain structure (nested dict / list / ndarray / scalars) carrying everything a digest covers"""
    import xarray as xr

    if isinstance(x, xr.DataArray):
        return {"__da__": True, "name": str(x.name), "dims": list(x.dims), "values": np.array(x.values), "attrs": {k: repr(x.attrs[k]) for k in ("cf_role", "_FillValue", "start_index") if k in x.attrs}}
    if isinstance(x, xr.Dataset):
        return {"__ds__": True, "vars": {str(k): simplify(x[k]) for k in sorted(x.variables) if k not in VOLATILE}}
    if isinstance(x, np.ndarray):
        return np.array(x)
    if isinstance(x, (tuple, list)):
        return [simplify(v) for v in x]
    if isinstance(x, (np.integer, np.floating, np.bool_)):
        return x.item()
    if isinstance(x, (int, float, str, bool)) or x is None:
        return x
    if hasattr(x, "node_lon") and hasattr(x, "face_node_connectivity"):
        return {"__grid__": True, "node_lon": np.array(x.node_lon.values), "node_lat": np.array(x.node_lat.values), "fnc": np.array(x.face_node_connectivity.values)}
    if hasattr(x, "columns") or hasattr(x, "get_paths") or hasattr(x, "get_segments"):
        from . import c15

        rows = c15.rows_of(x)
        cols = sorted(map(str, x.columns)) if hasattr(x, "columns") else []
        vals = None
        if hasattr(x, "get_array") and x.get_array() is not None:
            vals = np.asarray(x.get_array(), dtype=float)
        return {"__geom__": True, "rows": [[np.asarray(r, dtype=float) for r in row] for row in rows], "cols": cols, "vals": vals}
    return "<%s>" % type(x).__name__


def dig_simple(x):
    if isinstance(x, dict):
        if x.get("__da__"):
            return {"dims": x["dims"], "hash": dig_array(x["values"]), "attrs": x["attrs"]}
        if x.get("__ds__"):
            return {k: dig_simple(v) for k, v in x["vars"].items()}
        if x.get("__grid__"):
            return {k: dig_array(x[k]) for k in ("node_lon", "node_lat", "fnc")}
        if x.get("__geom__"):
            return core.jhash({"rows": [[np.round(r, 4).tolist() for r in row] for row in x["rows"]], "cols": x["cols"], "vals": None if x["vals"] is None else np.round(x["vals"], 6).tolist()})
        return {k: dig_simple(v) for k, v in x.items()}
    if isinstance(x, np.ndarray):
        return dig_array(x)
    if isinstance(x, list):
        return [dig_simple(v) for v in x]
    return repr(x)


def fp_simple(x):
    if isinstance(x, dict) and x.get("__da__"):
        return fingerprint(x["values"])
    if isinstance(x, np.ndarray):
        return fingerprint(x)
    if isinstance(x, list) and x and (isinstance(x[0], np.ndarray) or (isinstance(x[0], dict) and x[0].get("__da__"))):
        return fp_simple(x[0])
    if isinstance(x, (int, float)) and not isinstance(x, bool):
        return [1, float(x), float(x)]
    if isinstance(x, dict) and x.get("__grid__"):
        return fingerprint(x["fnc"])
    return None


def close_simple(a, b, rtol=1e-12, atol=1e-12, name=""):
    """tolerant comparison of two simplified values, used only when their exact digests differ"""
    try:
        if isinstance(a, dict) and isinstance(b, dict):
            if a.get("__da__") and b.get("__da__"):
                if a["dims"] != b["dims"] or a["attrs"] != b["attrs"]:
                    return False
                return close_simple(a["values"], b["values"], rtol, atol, a["name"])
            if a.get("__ds__") and b.get("__ds__"):
                return sorted(a["vars"]) == sorted(b["vars"]) and all(close_simple(a["vars"][k], b["vars"][k], rtol, atol) for k in a["vars"])
            if a.get("__grid__") and b.get("__grid__"):
                return (close_simple(a["node_lon"], b["node_lon"], rtol, atol, "node_lon") and close_simple(a["node_lat"], b["node_lat"], rtol, atol) and np.array_equal(a["fnc"], b["fnc"]))
            if a.get("__geom__") and b.get("__geom__"):
                if a["cols"] != b["cols"] or len(a["rows"]) != len(b["rows"]):
                    return False
                for x, y in zip(a["rows"], b["rows"]):
                    if len(x) != len(y) or any(np.shape(p) != np.shape(q) or not np.allclose(p, q, rtol=1e-6, atol=1e-6, equal_nan=True) for p, q in zip(x, y)):
                        return False
                return (a["vals"] is None) == (b["vals"] is None) and (a["vals"] is None or close_simple(a["vals"], b["vals"], rtol, atol))
            return False
        if isinstance(a, np.ndarray) and isinstance(b, np.ndarray):
            if a.shape != b.shape or a.dtype.kind != b.dtype.kind:
                return False
            if a.dtype.kind in "fc":
                if name.endswith("_lon") or name == "node_lon":
                    d = np.abs(a.astype(float) - b.astype(float))
                    return bool(np.all((np.minimum(d, np.abs(360.0 - d)) <= atol + rtol * 360.0) | (np.isnan(a) & np.isnan(b))))
                return bool(np.allclose(a, b, rtol=rtol, atol=atol, equal_nan=True))
            return bool(np.array_equal(a, b))
        if isinstance(a, list) and isinstance(b, list):
            return len(a) == len(b) and all(close_simple(x, y, rtol, atol) for x, y in zip(a, b))
        if isinstance(a, float) and isinstance(b, float):
            return bool(np.isclose(a, b, rtol=rtol, atol=atol, equal_nan=True))
        return a == b
    except Exception:
        return False


def dig_any(x):
    import xarray as xr

    if isinstance(x, xr.DataArray):
        return dig_da(x)
    if isinstance(x, xr.Dataset):
        return dig_ds(x)
    if isinstance(x, np.ndarray):
        return dig_array(x)
    if isinstance(x, (tuple, list)):
        return [dig_any(v) for v in x]
    if isinstance(x, (int, float, str, bool, np.integer, np.floating)) or x is None:
        return repr(x if not isinstance(x, (np.integer, np.floating)) else x.item())
    if hasattr(x, "node_lon") and hasattr(x, "face_node_connectivity"):
        return dig_grid(x)
    if hasattr(x, "columns") or hasattr(x, "get_paths") or hasattr(x, "get_segments"):
        from . import c15

        return c15.digest_obj(x)
    return "<%s>" % type(x).__name__


def fp_any(x):
    import xarray as xr

    if isinstance(x, xr.DataArray):
        return fingerprint(x.values)
    if isinstance(x, np.ndarray):
        return fingerprint(x)
    if isinstance(x, (tuple, list)) and x and isinstance(x[0], (np.ndarray, xr.DataArray)):
        return fp_any(x[0])
    if isinstance(x, (int, float, np.integer, np.floating)):
        return [1, float(x), float(x)]
    if hasattr(x, "node_lon") and hasattr(x, "face_node_connectivity"):
        return fingerprint(np.asarray(x.face_node_connectivity.values))
    return None


# ------------------------------------------------------------------ catalogue
ATTRS = ["n_node", "n_edge", "n_face", "n_max_face_nodes", "n_max_face_edges", "n_nodes_per_face", "node_lon", "node_lat", "node_x", "node_y", "node_z",
         "edge_lon", "edge_lat", "edge_x", "edge_y", "edge_z", "face_lon", "face_lat", "face_x", "face_y", "face_z", "face_node_connectivity",
         "edge_node_connectivity", "face_edge_connectivity", "node_face_connectivity", "edge_face_connectivity", "face_face_connectivity",
         "hole_edge_indices", "antimeridian_face_indices", "face_areas", "face_jacobian", "edge_node_distances", "edge_face_distances", "bounds", "edge_node_z"]

_QPTS = np.array([[10.0, 20.0], [-170.0, -45.0], [179.5, 60.0]])
_QXYZ = ref.lonlat_to_xyz(_QPTS[:, 0], _QPTS[:, 1])


def _proj(name):
    from . import c15

    return c15.projection(name)


def catalogue():
    C = {}

    def add(name, fn, exports=False, heavy=False, jit_off=True):
        C[name] = {"fn": fn, "exports": exports, "heavy": heavy, "jit_off": jit_off}

    for a in ATTRS:
        add("attr:" + a, (lambda a_: (lambda g: getattr(g, a_)))(a), heavy=(a == "bounds"))
    for rule, order, latlon in (("triangular", 4, True), ("triangular", 1, True), ("gaussian", 3, True), ("gaussian", 6, False), ("triangular", 8, False)):
        add("compute_face_areas:%s:%d:%s" % (rule, order, latlon), (lambda r, o, l: (lambda g: g.compute_face_areas(r, o, l)))(rule, order, latlon))
    add("calculate_total_face_area:default", lambda g: g.calculate_total_face_area())
    add("calculate_total_face_area:gaussian:2", lambda g: g.calculate_total_face_area("gaussian", 2))
    for fmt in ("ugrid", "exodus", "scrip"):
        add("to_xarray:" + fmt, (lambda f: (lambda g: g.to_xarray(f)))(fmt), exports=(fmt == "ugrid"))
    for pe in ("exclude", "split", "ignore"):
        for eng in ("spatialpandas", "geopandas"):
            add("to_geodataframe:%s:%s" % (pe, eng), (lambda p, e: (lambda g: g.to_geodataframe(periodic_elements=p, engine=e)))(pe, eng), jit_off=False)
        add("to_polycollection:%s" % pe, (lambda p: (lambda g: g.to_polycollection(periodic_elements=p)))(pe), jit_off=False)
        add("to_linecollection:%s" % pe, (lambda p: (lambda g: g.to_linecollection(periodic_elements=p)))(pe), jit_off=False)
    add("to_geodataframe:exclude:robinson", lambda g: g.to_geodataframe(periodic_elements="exclude", projection=_proj("robinson0")), jit_off=False)
    add("to_geodataframe:exclude:nocache", lambda g: g.to_geodataframe(periodic_elements="exclude", cache=False, override=True), jit_off=False)
    # three-call histories as one step: a cached build, then a build with other arguments that bypasses the cache; what is
    # observed afterwards (the plain cached calls above) must still be what a fresh grid gives
    add("to_geodataframe:exclude_then_split_nocache", lambda g: (g.to_geodataframe(periodic_elements="exclude"), g.to_geodataframe(periodic_elements="split", cache=False))[1], jit_off=False)
    add("to_geodataframe:split_then_geopandas_ignore_nocache", lambda g: (g.to_geodataframe(periodic_elements="split"), g.to_geodataframe(periodic_elements="ignore", engine="geopandas", cache=False))[1], jit_off=False)
    add("to_geodataframe:ignore_then_robinson_nocache", lambda g: (g.to_geodataframe(periodic_elements="ignore"), g.to_geodataframe(periodic_elements="exclude", projection=_proj("robinson0"), cache=False))[1], jit_off=False)
    add("to_polycollection:exclude_then_ignore_nocache", lambda g: (g.to_polycollection(periodic_elements="exclude"), g.to_polycollection(periodic_elements="ignore", cache=False))[1], jit_off=False)
    add("to_linecollection:exclude_then_ignore_nocache", lambda g: (g.to_linecollection(periodic_elements="exclude"), g.to_linecollection(periodic_elements="ignore", cache=False))[1], jit_off=False)
    add("to_polycollection:exclude:robinson", lambda g: g.to_polycollection(periodic_elements="exclude", projection=_proj("robinson0")), jit_off=False)
    add("to_polycollection:ignore:mollweide60", lambda g: g.to_polycollection(periodic_elements="ignore", projection=_proj("mollweide60")), jit_off=False)
    add("to_linecollection:exclude:robinson", lambda g: g.to_linecollection(periodic_elements="exclude", projection=_proj("robinson0")), jit_off=False)
    add("to_linecollection:exclude:nocache", lambda g: g.to_linecollection(periodic_elements="exclude", cache=False, override=True), jit_off=False)
    for kind in ("nodes", "face centers", "edge centers"):
        for system in ("spherical", "cartesian"):
            for recon in (False, True):
                nm = "ball_tree:%s:%s:%s" % (kind, system, recon)
                add(nm, (lambda k, s, r: (lambda g: g.get_ball_tree(k, coordinate_system=s, distance_metric="haversine" if s == "spherical" else "euclidean", reconstruct=r)
                                         .query(_QPTS if s == "spherical" else _QXYZ, k=1)))(kind, system, recon))
            nm = "kd_tree:%s:%s" % (kind, system)
            add(nm, (lambda k, s: (lambda g: g.get_kd_tree(k, coordinate_system=s).query(_QXYZ if s == "cartesian" else _QPTS[:, ::-1], k=1)))(kind, system))
    # ... and with the largest admissible k (all elements of the kind): the tree's own bookkeeping of how many elements it holds
    # must follow the kind that is selected, whatever was selected before
    _cnt = {"nodes": lambda g: int(g.n_node), "face centers": lambda g: int(g.n_face), "edge centers": lambda g: int(g.n_edge)}
    for kind in ("nodes", "face centers", "edge centers"):
        add("ball_tree:%s:spherical:k_all" % kind, (lambda k: (lambda g: g.get_ball_tree(k, coordinate_system="spherical", distance_metric="haversine").query(_QPTS[:2], k=_cnt[k](g))))(kind))
        add("kd_tree:%s:cartesian:k_all" % kind, (lambda k: (lambda g: g.get_kd_tree(k, coordinate_system="cartesian").query(_QXYZ[:2], k=_cnt[k](g))))(kind))
    for metric in ("chebyshev", "manhattan"):
        add("kd_tree:face centers:cartesian:" + metric, (lambda mt: (lambda g: g.get_kd_tree("face centers", coordinate_system="cartesian", distance_metric=mt).query(_QXYZ, k=2)))(metric))
        add("ball_tree:nodes:cartesian:False:" + metric, (lambda mt: (lambda g: g.get_ball_tree("nodes", coordinate_system="cartesian", distance_metric=mt).query(_QXYZ, k=2)))(metric))
    add("isel:n_face", lambda g: g.isel(n_face=[0, g.n_face - 1]))
    add("isel:n_node", lambda g: g.isel(n_node=[0]))
    add("isel:n_edge", lambda g: g.isel(n_edge=[0, 1]))
    add("subset:nearest_faces", lambda g: g.subset.nearest_neighbor([10.0, 20.0], k=min(3, g.n_face), element="face centers"))
    add("subset:circle_nodes", lambda g: g.subset.bounding_circle([-170.0, -45.0], 80.0, element="nodes"))
    add("cross_section:lat", lambda g: g.cross_section.constant_latitude(float(np.median(g.node_lat.values)) + 0.123, return_face_indices=True)[1])
    add("faces_at_lat", lambda g: g.get_faces_at_constant_latitude(float(np.median(g.node_lat.values)) - 0.321))
    add("get_dual", lambda g: g.get_dual())
    add("chunk", lambda g: g.chunk(n_node=3, n_face=2, n_edge=4))
    add("copy", lambda g: g.copy())
    # repr(grid) lists the variables materialised so far by design: it is run as a history step (its result is not an observation)
    add("eq_self", lambda g: g == g)
    return C


def observe(g, entry):
    """(status, digest, fingerprint) - exceptions are observations"""
    try:
        with warnings.catch_warnings():
            warnings.simplefilter("ignore")
            with np.errstate(all="ignore"):
                v = entry["fn"](g)
        sv = simplify(v)
        return "ok", dig_simple(sv), fp_simple(sv), sv
    except Exception as e:
        return "exc", core.exc_sig(e), None, None


# ------------------------------------------------------------------ module constants sentinel
def globals_digest():
    import importlib

    out = {}
    for modname in ("uxarray.conventions.ugrid", "uxarray.conventions.descriptors", "uxarray.constants"):
        m = importlib.import_module(modname)
        for k in sorted(vars(m)):
            v = getattr(m, k)
            if k.startswith("__") or callable(v) or type(v).__name__ == "module":
                continue
            out[modname.split(".")[-1] + "." + k] = _deep(v)
    import numba

    out["numba.config.DISABLE_JIT"] = repr(numba.config.DISABLE_JIT)
    return out


def _deep(v):
    if isinstance(v, dict):
        return {str(k): _deep(x) for k, x in sorted(v.items(), key=lambda kv: str(kv[0]))}
    if isinstance(v, (list, tuple)):
        return [_deep(x) for x in v]
    if isinstance(v, np.ndarray):
        return "ndarray:" + dig_array(v)
    return repr(v)


# ------------------------------------------------------------------ cases
SOURCES = ["topology", "mpas", "ugrid", "face_vertices"]


def rich_mesh(rng, max_faces=40):
    """Mesh descriptor with enough going on for a leak to be visible: 12..max_faces faces, closed or a large random part (so that
    antimeridian faces, boundary edges, mixed sizes occur) - single faces and isolated-face sets hide most state."""
    for _ in range(200):
        d = gen.random_mesh(rng, max_faces)
        ops = d.get("ops", [])
        if any(o[0] == "partial" and (o[1][2] != "random" or o[1][1] < 0.6) for o in ops):
            continue
        n = gen.build(d).n_face
        if 12 <= n <= max_faces + 10:
            return d
    return {"family": "polyhedron", "name": "dodecahedron", "ops": []}


def cases(tier, seed):
    rng = np.random.default_rng([seed, 808])
    names = sorted(catalogue().keys())
    n = len(names)
    pairs = [(i, j, x) for i in range(n) for j in range(n) for x in (0, 1)]
    if tier == "quick":
        # quick: every same-grid pair whose first op is a call (calls are what can leave state behind), a third of the same-grid
        # pairs that start with a plain attribute read, and a quarter of the cross-grid pairs
        keep = []
        for k, (i, j, x) in enumerate(pairs):
            call_first = not names[i].startswith("attr:")
            r = rng.random()
            if (x == 0 and (call_first or r < 1 / 3)) or (x == 1 and r < 0.25):
                keep.append(k)
        pairs = [pairs[k] for k in keep]
    chunk = 60
    for lo in range(0, len(pairs), chunk):
        yield {"kind": "pairs", "pairs": [[names[i], names[j], x] for i, j, x in pairs[lo:lo + chunk]], "mesh": rich_mesh(rng, 30),
               "mesh_b": rich_mesh(rng, 30), "source": SOURCES[(lo // chunk) % 4], "source_b": SOURCES[(lo // chunk + 1) % 4], "sseed": int(rng.integers(0, 10**6))}
    # every read that re-centres or re-derives geometry for an export (projected / uncached builds), followed by every plain attribute
    # read, on closed meshes that certainly have faces on the antimeridian AND on the shifted seam of the projection
    special = [nm for nm in names if any(t in nm for t in ("robinson", "mollweide", "nocache"))]
    attrs = [nm for nm in names if nm.startswith("attr:")]
    sp_pairs = [[a, b, 0] for a in special for b in attrs]
    for mi, md in enumerate(({"family": "cubed_sphere", "ne": 3, "ops": []}, {"family": "voronoi", "n": 40, "seed": 808, "ops": []})):
        for lo in range(0, len(sp_pairs), chunk):
            yield {"kind": "pairs", "pairs": sp_pairs[lo:lo + chunk], "mesh": md, "mesh_b": md, "source": SOURCES[(mi + lo // chunk) % 4], "source_b": SOURCES[0], "sseed": 808 + lo}
    nh = 100 if tier == "quick" else 8000
    for i in range(nh):
        L = int(rng.integers(3, 26))
        ng = int(rng.integers(1, 4))
        base = [names[int(k)] for k in rng.integers(0, n, size=max(2, L // 3))]
        hist = []
        for _ in range(L):
            nm = base[int(rng.integers(0, len(base)))] if rng.random() < 0.6 else names[int(rng.integers(0, n))]
            if rng.random() < 0.4:  # the same op family with other arguments
                fam = nm.split(":")[0]
                sib = [x for x in names if x.split(":")[0] == fam]
                nm = sib[int(rng.integers(0, len(sib)))]
            hist.append([int(rng.integers(0, ng)), nm])
        yield {"kind": "history", "history": hist, "meshes": [rich_mesh(rng, 30 if i % 4 else 120) for _ in range(ng)],
               "sources": [SOURCES[int(rng.integers(0, 4))] for _ in range(ng)], "sseed": int(rng.integers(0, 10**6))}


F32_SOURCE = [False]  # the current case's source carries single-precision coordinates


def make_factory(source, m, sseed):
    U = ux.ux()
    F32_SOURCE[0] = False
    rng = np.random.default_rng(sseed)
    if source == "mpas" and ref.is_manifold(m.faces):
        ds, _ = dialects.mpas_dataset(m, rng, force={"optional_tables": True})
        return lambda: U.open_grid(ds.copy(deep=True))
    if source == "ugrid":
        ds, info = dialects.ugrid_dataset(m, rng, force={"transposed": False})
        F32_SOURCE[0] = info["dial"].get("coord_dtype") == "float32"
        return lambda: U.open_grid(ds.copy(deep=True))
    if source == "face_vertices":
        src, info = dialects.face_vertices(m, rng, force={"container": "ndarray"})
        return lambda: U.Grid.from_face_vertices(np.array(src), latlon=info["latlon"])
    return lambda: ux.grid_from_mesh(m)


def close_any(a, b, rtol=1e-12, atol=1e-12):
    """Tolerant comparison used only when exact digests differ: two code paths that compute the same quantity may
    differ in the last bits (e.g. a longitude wrapped once or twice)."""
    import xarray as xr

    try:
        if isinstance(a, xr.Dataset) and isinstance(b, xr.Dataset):
            return sorted(a.variables) == sorted(b.variables) and all(close_any(a[k], b[k], rtol, atol) for k in a.variables if k not in VOLATILE)
        if isinstance(a, xr.DataArray) and isinstance(b, xr.DataArray):
            if str(a.name).endswith("_lon") and a.shape == b.shape and a.dtype.kind == "f":
                # a longitude on the antimeridian may be reported as +180 or -180: same point
                d = np.abs(np.asarray(a.values, dtype=float) - np.asarray(b.values, dtype=float))
                return tuple(a.dims) == tuple(b.dims) and bool(np.all(np.minimum(d, np.abs(360.0 - d)) <= atol + rtol * 360.0))
            return tuple(a.dims) == tuple(b.dims) and close_any(np.asarray(a.values), np.asarray(b.values), rtol, atol) and \
                all(repr(a.attrs.get(k)) == repr(b.attrs.get(k)) for k in ("cf_role", "_FillValue", "start_index"))
        if isinstance(a, np.ndarray) and isinstance(b, np.ndarray):
            if a.shape != b.shape or a.dtype.kind != b.dtype.kind:
                return False
            if a.dtype.kind in "fc":
                return bool(np.allclose(a, b, rtol=rtol, atol=atol, equal_nan=True))
            return bool(np.array_equal(a, b))
        if isinstance(a, (tuple, list)) and isinstance(b, (tuple, list)):
            return len(a) == len(b) and all(close_any(x, y, rtol, atol) for x, y in zip(a, b))
        if isinstance(a, (float, np.floating)) and isinstance(b, (float, np.floating)):
            return bool(np.isclose(a, b, rtol=rtol, atol=atol))
        if hasattr(a, "node_lon") and hasattr(a, "face_node_connectivity") and hasattr(b, "node_lon"):
            dl = np.abs(np.asarray(a.node_lon.values, dtype=float) - np.asarray(b.node_lon.values, dtype=float)) if a.n_node == b.n_node else np.array([999.0])
            return (bool(np.all(np.minimum(dl, np.abs(360.0 - dl)) <= 1e-9)) and close_any(np.asarray(a.node_lat.values), np.asarray(b.node_lat.values), rtol, atol)
                    and np.array_equal(np.asarray(a.face_node_connectivity.values), np.asarray(b.face_node_connectivity.values)))
        if hasattr(a, "columns") or hasattr(a, "get_paths") or hasattr(a, "get_segments"):
            from . import c15

            ra, rb = c15.rows_of(a), c15.rows_of(b)
            if len(ra) != len(rb):
                return False
            for x, y in zip(ra, rb):
                if len(x) != len(y) or any(np.shape(p) != np.shape(q) or not np.allclose(p, q, rtol=1e-6, atol=1e-6, equal_nan=True) for p, q in zip(x, y)):
                    return False
            return True
    except Exception:
        return False
    return False


class Zygote:
    """A process forked from the worker right after warm-up (library imported, kernels compiled, no grid history).  For every
    request it forks a grandchild that builds the requested source and observes each requested op on its own brand-new grid:
    the reference table comes from a process whose library state no history of this worker has touched."""

    def __init__(self):
        import os
        import pickle

        self.os, self.pickle = os, pickle
        req_r, req_w = os.pipe()
        ack_r, ack_w = os.pipe()
        pid = os.fork()
        if pid == 0:
            try:
                os.close(req_w)
                os.close(ack_r)
                self._serve(os.fdopen(req_r, "r"), os.fdopen(ack_w, "w"))
            finally:
                os._exit(0)
        os.close(req_r)
        os.close(ack_w)
        self.pid = pid
        self.req = os.fdopen(req_w, "w")
        self.ack = os.fdopen(ack_r, "r")
        self.n = 0

    def _serve(self, req, ack):
        os, pickle = self.os, self.pickle
        C = catalogue()
        for line in req:
            job = json.loads(line)
            pid = os.fork()
            if pid == 0:
                code = 1
                try:
                    out = {}
                    m = gen.build(job["mesh"])
                    fac = make_factory(job["source"], m, job["sseed"])
                    for name in job["ops"]:
                        st, dg, fp, val = observe(fac(), C[name])
                        out[name] = (st, dg, fp, val)
                    with open(job["out"], "wb") as f:
                        pickle.dump(out, f)
                    code = 0
                finally:
                    os._exit(code)
            # generous watchdog: a hung reference process makes the request fail (the caller falls back), never a verdict
            import time as _t

            t0, status = _t.time(), None
            while True:
                wp, st_ = os.waitpid(pid, os.WNOHANG)
                if wp:
                    status = st_
                    break
                if _t.time() - t0 > 180:
                    try:
                        os.kill(pid, 9)
                        os.waitpid(pid, 0)
                    except Exception:
                        pass
                    status = 999
                    break
                _t.sleep(0.005)
            ack.write("%d %d\n" % (job["id"], status))
            ack.flush()

    def table(self, source, mesh_desc, sseed, ops):
        import os

        self.n += 1
        from .. import env

        out = os.path.join(env.WORK, "c08ref_%d_%d.pkl" % (os.getpid(), self.n))
        self.req.write(json.dumps({"id": self.n, "out": out, "source": source, "mesh": mesh_desc, "sseed": sseed, "ops": list(ops)}, default=core._jd) + "\n")
        self.req.flush()
        line = self.ack.readline()
        if not line or int(line.split()[1]) != 0 or not os.path.exists(out):
            raise RuntimeError("reference process failed: %r" % (line,))
        with open(out, "rb") as f:
            t = self.pickle.load(f)
        os.remove(out)
        return t

    def close(self):
        try:
            self.req.close()
            self.os.waitpid(self.pid, 0)
        except Exception:
            pass


_Z = {"z": None}


def setup(ctx):
    """Warm-up (imports, JIT compilation) on a throw-away grid, then fork the reference zygote."""
    import dask

    dask.config.set(scheduler="synchronous")  # no thread pools in a process that is going to fork
    C = catalogue()
    m = gen.build({"family": "polyhedron", "name": "cube", "ops": []})
    for src in ("topology", "mpas"):
        fac = make_factory(src, m, 1)
        g = fac()
        for name in sorted(C):
            if ctx.mode == "jit-off" and not C[name]["jit_off"]:
                continue
            observe(g if not name.startswith("chunk") else fac(), C[name])
    _Z["z"] = Zygote()


def finish(ctx):
    if _Z["z"] is not None:
        _Z["z"].close()


class Ref:
    """reference table of one source: op -> (status, digest, fingerprint, simplified value), each observed on its own brand-new
    grid inside a process forked from the pristine zygote"""

    def __init__(self, source, mesh_desc, sseed, C, ops, ctx=None):
        self.C = C
        self.ctx = ctx
        self.args = (source, mesh_desc, sseed)
        self.t = {}
        self._fetch(sorted(set(ops)))

    def _fetch(self, ops):
        try:
            self.t.update(_Z["z"].table(self.args[0], self.args[1], self.args[2], ops))
            if self.ctx is not None:
                self.ctx.observe("reference_tables_from_forked_pristine_process")
        except Exception as e:
            # fall back to brand-new grids in this process (weaker: shares the library's module state with the history)
            if self.ctx is not None:
                self.ctx.observe("reference_fallback_in_process")
            fac = make_factory(self.args[0], gen.build(self.args[1]), self.args[2])
            for name in ops:
                self.t[name] = observe(fac(), self.C[name])

    def get(self, name):
        if name not in self.t:
            self._fetch([name])
        return self.t[name]


def compare(ctx, name, entry, got, R, sig, det):
    st, dg, fp, val = got
    rst, rdg, rfp, rval = R.get(name)
    if entry["exports"] and st == "ok" and rst == "ok":
        # superset of the fresh export; extra variables hold the value of the property of the same name
        miss = [k for k in rdg if k not in dg]
        diff = [k for k in rdg if k in dg and dg[k] != rdg[k] and not close_simple(val["vars"][k], rval["vars"][k])]
        bad_extra = []
        for k in dg:
            if k in rdg:
                continue
            pr = "attr:" + k
            if pr in R.C:
                est, edg, _, _v = R.get(pr)
                if est == "ok" and isinstance(edg, dict) and edg.get("hash") != dg[k].get("hash"):
                    bad_extra.append(k)
        ok = not miss and not diff and not bad_extra
        ctx.check("pure_function_of_source", ok, dict(sig, why="export"), dict(det, missing=miss[:5], differing=diff[:5], extra_with_other_value=bad_extra[:5]))
        return
    ok = (st == rst) and (dg == rdg)
    if not ok and st == rst == "ok" and close_simple(val, rval):
        ok = True
        ctx.observe("equal_up_to_rounding_only")
    why = "" if ok else ("status %s vs fresh %s" % (st, rst) if st != rst else "value differs")
    ctx.check("pure_function_of_source", ok, dict(sig, why=why, got_exc=dg if st == "exc" else "", fresh_exc=rdg if rst == "exc" else ""), dict(det, got=str(dg)[:200], fresh=str(rdg)[:200]))


def run_case(ctx, case):
    C = catalogue()
    jit_off = ctx.mode == "jit-off"
    base_globals = globals_digest()

    def sentinel(sig, det):
        now = globals_digest()
        changed = sorted(k for k in set(now) | set(base_globals) if now.get(k) != base_globals.get(k))
        ctx.check("module_constants_unchanged", not changed, dict(sig, changed=",".join(changed)[:80]), dict(det, changed=changed[:6]))
        base_globals.update(now)
        for k in list(base_globals):
            if k not in now:
                del base_globals[k]

    if case["kind"] == "pairs":
        mA, mB = gen.build(case["mesh"]), gen.build(case["mesh_b"])
        if jit_off and (mA.n_face > 40 or mB.n_face > 40):
            return
        fA = make_factory(case["source"], mA, case["sseed"])
        f32_a = bool(F32_SOURCE[0])
        fB = make_factory(case["source_b"], mB, case["sseed"] + 1)
        pairs = case["pairs"]
        if jit_off:
            pairs = pairs[:6]
        RA = Ref(case["source"], case["mesh"], case["sseed"], C, [p[1] for p in pairs] + ["attr:" + a for a in ATTRS if a != "bounds"], ctx)
        RB = Ref(case["source_b"], case["mesh_b"], case["sseed"] + 1, C, [p[0] for p in pairs if p[2]], ctx)
        fps = {}
        for first, second, cross in pairs:
            if jit_off and not (C[first]["jit_off"] and C[second]["jit_off"]):
                continue
            if (C[first]["heavy"] or C[second]["heavy"]) and mA.n_face > 25:
                continue
            a = fA()
            tgt = fB() if cross else a
            sig = {"first": first.split(":")[0] + ":" + ":".join(first.split(":")[1:3]), "second": second.split(":")[0] + ":" + ":".join(second.split(":")[1:3]), "cross_grid": bool(cross)}
            det = {"first": first, "second": second, "cross_grid": bool(cross), "source": case["source"], "source_b": case["source_b"], "mesh": case["mesh"], "mesh_b": case["mesh_b"] if cross else None}
            got1 = observe(tgt, C[first])
            sentinel(dict(sig, after=sig["first"]), det)
            if cross:  # the first op is an observation of B as well
                compare(ctx, first, C[first], got1, RB, dict(sig, observed="first_on_B"), det)
            got = observe(a, C[second])
            sentinel(dict(sig, after=sig["second"]), det)
            compare(ctx, second, C[second], got, RA, sig, det)
            if got[2] is not None:
                fps[second] = got[2]
            ctx.observe("pairs_run")
            ctx.note_set("ordered_pairs", first.split(":")[0] + ">" + second.split(":")[0])
            ctx.mark_nontrivial((first, second, cross))
        ctx.blobs.setdefault("fp", {})[core.jhash([case["mesh"], case["source"], case["sseed"]])] = dict({k: v for k, v in fps.items()}, **({"__f32__": [1.0]} if f32_a else {}))
        if pairs:
            ctx.sample({"kind": "pairs", "source": case["source"], "mesh": case["mesh"], "first_pairs": pairs[:3]}, limit=2)
        return
    meshes = [gen.build(d) for d in case["meshes"]]
    if jit_off:
        return
    facs = [make_factory(s, m, case["sseed"] + i) for i, (s, m) in enumerate(zip(case["sources"], meshes))]
    grids = [f() for f in facs]
    refs = [Ref(case["sources"][i], case["meshes"][i], case["sseed"] + i, C, [nm for gi, nm in case["history"] if gi == i], ctx) for i in range(len(facs))]
    done = []
    for gi, name in case["history"]:
        if C[name]["heavy"] and meshes[gi].n_face > 25:
            continue
        sig = {"second": name.split(":")[0] + ":" + ":".join(name.split(":")[1:3]), "first": "history", "cross_grid": len(grids) > 1}
        det = {"history_so_far": done[-12:], "op": name, "grid": gi, "sources": case["sources"], "meshes": case["meshes"]}
        got = observe(grids[gi], C[name])
        sentinel(dict(sig, after=sig["second"]), det)
        compare(ctx, name, C[name], got, refs[gi], sig, det)
        done.append([gi, name])
        ctx.observe("history_events")
    if len(done) >= 2:
        ctx.mark_nontrivial()
    ctx.observe("histories")
    ctx.sample({"kind": "history", "sources": case["sources"], "meshes": case["meshes"], "history": case["history"][:8]}, limit=2)


def cross_modes(by_mode):
    """JIT on vs JIT off: fingerprints of the same observation on the same source must agree (rtol 1e-9; 1e-6 for float32 sources)."""
    on = {}
    off = {}
    for mode, blobs in by_mode.items():
        tgt = off if mode == "jit-off" else on
        for b in blobs:
            for ck, fps in b.get("fp", {}).items():
                tgt.setdefault(ck, {}).update(fps)
    n, viol = 0, []
    for ck, fps in off.items():
        # single-precision coordinates: compiled and interpreted code promote float32 operands differently - float32 rounding
        rt = 1e-6 if "__f32__" in fps else 1e-9
        for op, fp in fps.items():
            if op == "__f32__":
                continue
            if ck in on and op in on[ck]:
                n += 1
                a, b = np.array(on[ck][op], dtype=float), np.array(fp, dtype=float)
                if a.shape != b.shape or not np.allclose(a, b, rtol=rt, atol=rt / 10):
                    viol.append({"clause": "cross_mode", "sig": {"op": op.split(":")[0] + ":" + ":".join(op.split(":")[1:3])}, "case": {"case_key": ck, "op": op},
                                 "detail": {"jit_on": a.tolist(), "jit_off": b.tolist(), "op": op}, "seed": 0, "shard": -1})
    return n, viol
