"""C02 - derived edges are exactly the boundary segments of the faces."""

import itertools

import numpy as np

from .. import gen, ref, ux

PROPERTY = "C02"
SHARDS = {"quick": 6, "thorough": 16}
RULE = (
    "cases: (a) every face-node table with <=2 faces (quick) / <=3 faces (thorough) over <=6 nodes, "
    "face sizes 3..5, all start corners and orientations, up to node relabelling (finite sub-space walked "
    "completely); (b) seeded random meshes (voronoi/delaunay/merged/polyhedra/patch/cubed-sphere, partial, "
    "renumbered, start corners rotated, padding wider than needed; table memory layout C / Fortran / transposed view / strided view) "
    "x first-access order of the five observed attributes; (c) pairs of grids (same source, renumbered twin, other mesh) whose ten first "
    "reads are interleaved in a random order (two-grid histories). Non-trivial = >=2 face sizes, or a shared edge, or padding not confined to the "
    "last rows. distinct = hash of the case descriptor."
)
ASSUMPTIONS = [
    "face-node tables are supplied in standard form through Grid.from_topology (start_index 0, standard fill)",
    "set/dict reference model in uxmon/ref.py is correct (self-tested against hand cases in setup)",
]
MIN_EVAL = {
    "quick": {"edge_set": 300, "face_edge": 300, "n_nodes_per_face": 300, "euler": 20},
    "thorough": {"edge_set": 3000, "face_edge": 3000, "n_nodes_per_face": 3000, "euler": 200},
}
EXHAUSTIVE = {"quick": False, "thorough": False}

ATTRS = ["n_edge", "edge_node_connectivity", "face_edge_connectivity", "n_nodes_per_face", "n_max_face_edges"]
ORDERS = list(itertools.permutations(range(5)))

_TINY = {}


def _tiny(params):
    key = (params[0], params[1], tuple(params[2]))
    if key not in _TINY:
        _TINY[key] = gen.tiny_tables(*key)
    return _TINY[key]


def cases(tier, seed):
    rng = np.random.default_rng([seed, 202])
    params = [2, 6, [3, 4, 5]] if tier == "quick" else [3, 5, [3, 4]]
    n = {"quick": 1903, "thorough": 24369}[tier]
    chunk = 50
    for lo in range(0, n, chunk):
        yield {"kind": "tiny", "params": params, "lo": lo, "hi": min(n, lo + chunk)}
    if tier == "thorough":
        for lo in range(0, 1903, chunk):
            yield {"kind": "tiny", "params": [2, 6, [3, 4, 5]], "lo": lo, "hi": min(1903, lo + chunk)}
    nmesh, maxf = (360, 200) if tier == "quick" else (30000, 3000)
    for i in range(nmesh):
        mf = maxf if i % 10 == 0 else min(maxf, 150)
        d = gen.random_mesh(rng, mf)
        yield {
            "kind": "mesh", "mesh": d, "extra_width": int(rng.choice([0, 0, 1, 3])),
            "order": int(rng.integers(0, len(ORDERS))), "layout": ux.LAYOUTS[int(rng.integers(0, 4))] if rng.random() < 0.5 else "C",
            "orphans": int(rng.choice([0, 0, 0, 1, 3])), "supplied_edge_nodes": bool(rng.random() < 0.25), "xseed": int(rng.integers(0, 10**6)),
        }
    # faces with very many corners (counts beyond one byte) next to small ones
    for k in ([256, 300, 720] if tier == "quick" else [255, 256, 257, 300, 511, 512, 720, 1000, 4096]):
        yield {"kind": "mesh", "mesh": {"family": "capped_ring", "k": k, "ops": [["renumber", k]] if k % 2 == 0 else []}, "extra_width": 0, "order": k % len(ORDERS), "layout": "C", "orphans": 0,
               "supplied_edge_nodes": False, "xseed": k}
    from .. import samplefiles

    for i, (fkind, rel, kw) in enumerate(samplefiles.netcdf_files(tier)):
        if rel in samplefiles.INCONSISTENT_SOURCE_TABLES:
            continue  # its own edge tables contradict its faces: nothing to hold the library to
        yield {"kind": "sample_file", "file": rel, "kw": kw, "order": i % len(ORDERS), "format": fkind}
    # histories over two grids: the attributes of A and B are first read in an interleaved order
    npair = 60 if tier == "quick" else 8000
    for i in range(npair):
        d = gen.random_mesh(rng, 80)
        kind = ["renumbered_twin", "other_mesh", "same_source"][i % 3]
        d2 = gen.random_mesh(rng, 80) if kind == "other_mesh" else d
        yield {"kind": "pair", "mesh": d, "mesh2": d2, "pair_kind": kind, "rseed": int(rng.integers(0, 10**6)), "iseed": int(rng.integers(0, 10**6))}


def _tiny_positions(n):
    rng = np.random.default_rng(99)
    return ref.unit(rng.normal(size=(n, 3)))


def check_grid(ctx, grid, faces, n_node, width, closed, order, sig_base, obs=None, supplied_face_edge=False):
    """Observe the five attributes in the given first-access order and compare with the model."""
    if obs is None:
        obs = {}
        for k in ORDERS[order]:
            name = ATTRS[k]
            try:
                v = getattr(grid, name)
                obs[name] = v
            except Exception as e:  # an exception on a well-formed table is a violation
                ctx.check("no_exception", False, dict(sig_base, attr=name, exc=__import__("uxmon.core", fromlist=["x"]).exc_sig(e)), {"exc": repr(e)})
                return
    ctx.check("no_exception", True)
    model_edges = ref.edge_set(faces)
    en = np.asarray(obs["edge_node_connectivity"].values)
    ok_form = en.ndim == 2 and en.shape[1] == 2 and not ux.standard_table(obs["edge_node_connectivity"], n_node)
    got = [frozenset(map(int, r)) for r in en] if en.ndim == 2 else []
    ok = (
        ok_form
        and not np.any(en == ux.INT_FILL)
        and len(got) == len(set(got))
        and set(got) == model_edges
        and all(len(e) == 2 for e in got)
    )
    ctx.check("edge_set", ok, dict(sig_base, what="edge_node_connectivity"),
              {"got": sorted(map(sorted, got))[:40], "want": sorted(map(sorted, model_edges))[:40], "form": ux.standard_table(obs["edge_node_connectivity"], n_node)})
    ctx.check("n_edge", int(obs["n_edge"]) == len(model_edges) == len(got), dict(sig_base, what="n_edge"),
              {"n_edge": int(obs["n_edge"]), "want": len(model_edges)})
    fe = np.asarray(obs["face_edge_connectivity"].values)
    ok = fe.ndim == 2 and fe.shape == (len(faces), width) and fe.dtype == ux.INT_DTYPE
    why = None
    if not ok:
        why = "shape/dtype %s %s want %s" % (fe.shape, fe.dtype, (len(faces), width))
    else:
        for f, ring in enumerate(faces):
            k = len(ring)
            me = ref.face_edges(ring)
            if supplied_face_edge:
                # a table the source ships keeps the source's own slot convention (MPAS: edge j precedes corner j): the statement's
                # slot rule is about derived tables - here the row must list exactly the face's edges, once each, then padding
                row = [int(e) for e in fe[f] if int(e) != ux.INT_FILL]
                if any(e < 0 or e >= len(got) for e in row) or sorted(map(sorted, (got[e] for e in row))) != sorted(map(sorted, me)) or len(row) != k:
                    ok, why = False, "face %d lists edges %s joining %s, its boundary segments are %s" % (f, row, [sorted(got[e]) for e in row if 0 <= e < len(got)], sorted(map(sorted, me)))
                    break
                continue
            for j in range(width):
                e = int(fe[f, j])
                if j < k:
                    if e < 0 or e >= len(got) or got[e] != me[j]:
                        ok, why = False, "face %d slot %d edge %s joins %s, want %s" % (f, j, e, sorted(got[e]) if 0 <= e < len(got) else None, sorted(me[j]))
                        break
                elif e != ux.INT_FILL:
                    ok, why = False, "face %d slot %d should be padding, is %d" % (f, j, e)
                    break
            if not ok:
                break
    ctx.check("face_edge", ok, dict(sig_base, what="face_edge_connectivity"), {"why": why})
    npf = np.asarray(obs["n_nodes_per_face"].values)
    want = np.array([len(r) for r in faces])
    ctx.check("n_nodes_per_face", npf.shape == want.shape and bool(np.all(npf == want)) and np.issubdtype(npf.dtype, np.integer),
              dict(sig_base, what="n_nodes_per_face"), {"got": npf.tolist()[:50], "want": want.tolist()[:50]})
    ctx.check("n_max_face_edges", int(obs["n_max_face_edges"]) == width, dict(sig_base, what="n_max_face_edges"),
              {"got": int(obs["n_max_face_edges"]), "want": width})
    if closed:
        ctx.check("euler", n_node - int(obs["n_edge"]) + len(faces) == 2, dict(sig_base, what="euler"),
                  {"n_node": n_node, "n_edge": int(obs["n_edge"]), "n_face": len(faces)})


def nontrivial(faces, width):
    sizes = {len(f) for f in faces}
    if len(sizes) >= 2:
        short_rows = [i for i, f in enumerate(faces) if len(f) < width]
        return True
    ef = ref.edge_faces(faces)
    return any(len(v) >= 2 for v in ef.values())


def run_case(ctx, case):
    U = ux.ux()
    if case["kind"] == "tiny":
        tabs = _tiny(case["params"])[case["lo"]:case["hi"]]
        for t_i, faces in enumerate(tabs):
            n_node = 1 + max(v for f in faces for v in f)
            xyz = _tiny_positions(6)[:n_node]
            lon, lat = ref.xyz_to_lonlat(xyz)
            width = max(len(f) for f in faces)
            conn = np.full((len(faces), width), ux.INT_FILL, dtype=np.intp)
            for i, f in enumerate(faces):
                conn[i, : len(f)] = f
            g = U.Grid.from_topology(np.array(lon), np.array(lat), conn, fill_value=ux.INT_FILL)
            order = (case["lo"] + t_i) % len(ORDERS)
            check_grid(ctx, g, faces, n_node, width, False, order, {"kind": "tiny", "mixed": len({len(f) for f in faces}) > 1})
            if nontrivial(faces, width):
                ctx.mark_nontrivial(case["lo"] + t_i)
            ctx.observe("tiny_tables")
            if t_i == 0 and case["lo"] % 500 == 0:
                ctx.sample({"kind": "tiny", "faces": faces, "order": [ATTRS[k] for k in ORDERS[order]]})
        return
    if case["kind"] == "pair":
        return run_pair(ctx, case)
    if case["kind"] == "sample_file":
        from .. import samplefiles

        g, m = samplefiles.open_with_model(case["file"], case["kw"])
        width = int(np.asarray(g.face_node_connectivity.values).shape[1])
        # a closed sample mesh may carry nodes no face uses or coincident nodes (cubed-sphere files duplicate nothing, lat-lon files
        # repeat the pole): Euler's relation is demanded only where every node is used exactly as a distinct point
        used = len({v for f in m.faces for v in f}) == m.n_node
        sup = samplefiles.supplied_tables(case["format"], case["file"])
        check_grid(ctx, g, m.faces, m.n_node, width, bool(m.closed and used and case["file"] not in ("ugrid/outRLL1deg/outRLL1deg.ug",)), case["order"],
                   {"kind": "sample_file", "file": case["file"].split("/")[-1], "mixed": len({len(f) for f in m.faces}) > 1, "format": case["format"]},
                   supplied_face_edge="face_edge_connectivity" in sup)
        ctx.mark_nontrivial()
        ctx.observe("sample_files")
        return
    m = gen.build(case["mesh"])
    if case.get("orphans"):
        m = gen.with_orphans(m, case["xseed"], case["orphans"])  # nodes no face uses, anywhere in the numbering
        ctx.observe("meshes_with_unused_nodes")
    width = max(len(f) for f in m.faces) + case["extra_width"]
    layout = case.get("layout", "C")
    extra = None
    if case.get("supplied_edge_nodes"):
        # the source ships its own edge table (any row order, either orientation of a pair); face_edge is then looked up in it
        xr_ = np.random.default_rng(case["xseed"])
        edges = sorted(ref.edge_set(m.faces), key=lambda e: sorted(e))
        edges = [edges[i] for i in xr_.permutation(len(edges))]
        extra = {"edge_node_connectivity": np.array([sorted(e) if xr_.random() < 0.5 else sorted(e)[::-1] for e in edges], dtype=np.intp)}
        ctx.observe("meshes_with_supplied_edge_nodes")
    conv = ux.CONVENTIONS[case.get("xseed", 0) % len(ux.CONVENTIONS)]
    g = ux.grid_from_mesh(m, width=width, layout=layout, extra=extra, convention=conv)
    ctx.observe("convention_fill_%s_start_%d" % ("standard" if conv[0] == ux.INT_FILL else conv[0], conv[1]))
    mixed = len({len(f) for f in m.faces}) > 1
    check_grid(ctx, g, m.faces, m.n_node, width, m.closed, case["order"],
               {"kind": "mesh", "family": case["mesh"]["family"], "mixed": mixed, "closed": bool(m.closed), "extra_width": case["extra_width"] > 0, "layout": layout,
                "unused_nodes": bool(case.get("orphans")), "supplied_edge_nodes": bool(extra)})
    ctx.observe("layout_" + layout)
    # ... and the tables still say the same after other derived quantities have been asked for (these read, and must only read, the edge tables)
    for name in ("edge_face_connectivity", "face_face_connectivity", "node_face_connectivity", "hole_edge_indices", "edge_node_distances", "edge_face_distances", "edge_lon", "face_areas", "bounds"):
        try:
            v = getattr(g, name)
            np.asarray(v.values) if hasattr(v, "values") else v
        except Exception:
            pass
    check_grid(ctx, g, m.faces, m.n_node, width, m.closed, case["order"],
               {"kind": "mesh", "family": case["mesh"]["family"], "mixed": mixed, "closed": bool(m.closed), "reread": "after_other_quantities", "supplied_edge_nodes": bool(extra)})
    # grids DERIVED from this one once all its tables exist: non-contiguous face selections (two selected faces may both
    # touch an unselected one) - judged against the faces the derived grid itself reports
    if m.n_face >= 4:
        from .. import core

        rng = np.random.default_rng([m.n_face, m.n_node, case["order"]])
        picks = {"every_other": np.arange(0, m.n_face, 2), "random_half": np.sort(rng.choice(m.n_face, size=max(2, m.n_face // 2), replace=False)),
                 "permutation": rng.permutation(m.n_face)}
        for how, idx in picks.items():
            try:
                sub = g.isel(n_face=np.asarray(idx, dtype=int))
                sfaces = ux.rows(sub.face_node_connectivity.values)
                swidth = int(np.asarray(sub.face_node_connectivity.values).shape[1])
            except Exception as e:
                ctx.check("no_exception", False, {"kind": "derived", "how": how, "exc": core.exc_sig(e)}, {"exc": repr(e), "mesh": case["mesh"]})
                continue
            check_grid(ctx, sub, sfaces, int(sub.n_node), swidth, bool(m.closed and how == "permutation"), (case["order"] + 1) % len(ORDERS),
                       {"kind": "derived", "how": how, "mixed": len({len(f) for f in sfaces}) > 1})
            ctx.observe("derived_grid_" + how)
    if nontrivial(m.faces, width):
        ctx.mark_nontrivial()
    ctx.observe("meshes")
    ctx.observe("family_" + case["mesh"]["family"])
    if m.n_face == 1:
        ctx.observe("single_face_grids")
    if mixed:
        ctx.observe("mixed_size_meshes")
        sizes = [len(f) for f in m.faces]
        if sizes[0] < max(sizes):
            ctx.observe("short_row_first")
    ctx.sample({"mesh": case["mesh"], "stats": ux.mesh_stats(m), "order": [ATTRS[k] for k in ORDERS[case["order"]]]})


def run_pair(ctx, case):
    """Two grids in one process; the first reads of their attributes are interleaved (a history over two grids).
    Every attribute must describe its own grid's faces."""
    from .. import core

    a = gen.build(case["mesh"])
    if case["pair_kind"] == "renumbered_twin":
        b = gen.renumbered(a, case["rseed"])
    elif case["pair_kind"] == "same_source":
        b = a
    else:
        b = gen.build(case["mesh2"])
    meshes = [a, b]
    grids = [ux.grid_from_mesh(a), ux.grid_from_mesh(b)]
    rng = np.random.default_rng(case["iseed"])
    steps = [(gi, k) for gi in (0, 1) for k in range(len(ATTRS))]
    rng.shuffle(steps)
    obs = [{}, {}]
    hist = []
    for gi, k in steps:
        name = ATTRS[k]
        hist.append("%s.%s" % ("AB"[gi], name))
        try:
            obs[gi][name] = getattr(grids[gi], name)
        except Exception as e:
            ctx.check("no_exception", False, {"kind": "pair", "pair_kind": case["pair_kind"], "attr": name, "exc": core.exc_sig(e)}, {"exc": repr(e), "history": hist})
            return
    for gi in (0, 1):
        m = meshes[gi]
        width = max(len(f) for f in m.faces)
        # snapshot values now: later reads on the other grid must not have altered them
        check_grid(ctx, grids[gi], m.faces, m.n_node, width, m.closed, 0,
                   {"kind": "pair", "pair_kind": case["pair_kind"], "grid": "AB"[gi], "mixed": len({len(f) for f in m.faces}) > 1}, obs=obs[gi])
    ctx.mark_nontrivial()
    ctx.observe("pairs")
    ctx.observe("pair_" + case["pair_kind"])
    if ctx.observed.get("pairs", 0) <= 2:
        ctx.samples.append({"kind": "pair", "pair_kind": case["pair_kind"], "mesh": case["mesh"], "history": hist})
