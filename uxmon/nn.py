"""Brute-force neighbour search under the three metrics the library's trees use.

Elements and query points are given as unit vectors (and lon/lat degrees for the planar metric).
  haversine : great-circle angle in radians (atan2 form - well conditioned everywhere)
  chord     : Euclidean distance between unit vectors
  planar    : sqrt(dlat^2 + dlon^2) of (lat, lon) in radians, no periodicity (what a k-d tree on (lat, lon) measures)
"""

import math

import numpy as np

from . import ref


def distances(metric, elem_xyz, elem_lonlat_deg, q_xyz=None, q_lonlat_deg=None):
    """(nq, ne) matrix of distances.  For 'planar' the query lon/lat are used exactly as given."""
    if metric == "haversine":
        A = np.asarray(q_xyz)[:, None, :]
        B = np.asarray(elem_xyz)[None, :, :]
        c = np.cross(A, B)
        return np.arctan2(np.linalg.norm(c, axis=-1), np.sum(A * B, axis=-1))
    if metric in ("chord", "xyz_chebyshev", "xyz_manhattan"):
        A = np.asarray(q_xyz)[:, None, :]
        B = np.asarray(elem_xyz)[None, :, :]
        if metric == "chord":
            return np.linalg.norm(A - B, axis=-1)
        if metric == "xyz_chebyshev":
            return np.max(np.abs(A - B), axis=-1)
        return np.sum(np.abs(A - B), axis=-1)
    if metric in ("planar", "planar_chebyshev", "planar_manhattan"):
        ql = np.deg2rad(np.asarray(q_lonlat_deg, dtype=float))
        el = np.deg2rad(np.asarray(elem_lonlat_deg, dtype=float))
        dlon = np.abs(ql[:, None, 0] - el[None, :, 0])
        dlat = np.abs(ql[:, None, 1] - el[None, :, 1])
        if metric == "planar":
            return np.sqrt(dlon * dlon + dlat * dlat)
        if metric == "planar_chebyshev":
            return np.maximum(dlon, dlat)
        return dlon + dlat
    raise ValueError(metric)


def tol_for(metric, d):
    """Comparison tolerance (in the metric's own unit) - sklearn's haversine is 2*asin(sqrt(h)), ill conditioned
    near the antipode (error ~ sqrt(eps))."""
    d = np.asarray(d, dtype=float)
    if metric == "haversine":
        return np.where(d > 3.0, 1e-6, 1e-9)
    return np.full(d.shape, 1e-9)


def knn_ok(metric, D_row, ind, dist, k, scale=1.0):
    """D_row: true distances from one query to all elements; ind/dist: returned (dist may be None);
    scale: factor from the metric's unit to the unit dist is reported in.  Returns (ok, why)."""
    ind = np.asarray(ind).reshape(-1)
    ne = len(D_row)
    if ind.shape[0] != k:
        return False, "returned %d indices for k=%d" % (ind.shape[0], k)
    if np.any(ind < 0) or np.any(ind >= ne):
        return False, "index out of range"
    if len(set(ind.tolist())) != k:
        return False, "duplicate indices"
    true_sel = D_row[ind]
    want = np.sort(D_row)[:k]
    tol = tol_for(metric, want)
    if np.any(np.abs(np.sort(true_sel) - want) > tol):
        return False, "returned elements are not the k nearest: true distances %s, k smallest %s" % (np.sort(true_sel)[:6].tolist(), want[:6].tolist())
    if np.any(np.diff(true_sel) < -tol[1:] if k > 1 else False):
        return False, "not nearest first: true distances in returned order %s" % true_sel[:8].tolist()
    if dist is not None:
        dist = np.asarray(dist, dtype=float).reshape(-1)
        if dist.shape[0] != k:
            return False, "returned %d distances for k=%d" % (dist.shape[0], k)
        if np.any(np.abs(dist - true_sel * scale) > tol_for(metric, true_sel) * scale):
            j = int(np.argmax(np.abs(dist - true_sel * scale)))
            return False, "reported distance %r for element %d, true %r (unit scale %g)" % (float(dist[j]), int(ind[j]), float(true_sel[j] * scale), scale)
        if k > 1 and np.any(np.diff(dist) < -tol[1:] * scale):
            return False, "reported distances not ascending"
    return True, None


def radius_ok(metric, D_row, r, ind, dist=None, count=None, scale=1.0, band=1e-9):
    """r in the metric's unit.  Elements within `band` of r are don't-care."""
    must = set(np.nonzero(D_row < r - band)[0].tolist())
    may = set(np.nonzero(D_row <= r + band)[0].tolist())
    if count is not None:
        c = int(np.asarray(count).reshape(-1)[0])
        return (len(must) <= c <= len(may)), "count %d not in [%d, %d]" % (c, len(must), len(may))
    got = np.asarray(ind).reshape(-1)
    gs = set(got.tolist())
    if len(gs) != len(got):
        return False, "duplicate indices"
    if not (must <= gs <= may):
        return False, "radius set differs: missing %s, extra %s" % (sorted(must - gs)[:5], sorted(gs - may)[:5])
    if dist is not None:
        dist = np.asarray(dist, dtype=float).reshape(-1)
        if dist.shape != got.shape:
            return False, "distance/index shape mismatch"
        t = D_row[got]
        if len(t) and np.any(np.abs(dist - t * scale) > tol_for(metric, t) * scale):
            j = int(np.argmax(np.abs(dist - t * scale)))
            return False, "reported distance %r for element %d, true %r (unit scale %g)" % (float(dist[j]), int(got[j]), float(t[j] * scale), scale)
    return True, None
