"""Helpers that touch uxarray's public API (imported lazily so the runner stays light)."""

import numpy as np

from . import ref, gen

INT_DTYPE = np.intp
INT_FILL = np.iinfo(np.intp).min

_ux = None


def ux():
    global _ux
    if _ux is None:
        import uxarray

        _ux = uxarray
    return _ux


LAYOUTS = ["C", "F", "T", "strided"]


def with_layout(a, layout):
    """Same values, other memory layout: C (row-major, fresh), F (column-major), T (transposed view of a
    row-major array), strided (every second column / element of a wider array)."""
    a = np.asarray(a)
    if layout == "C" or a.ndim == 0:
        return np.array(a, order="C")
    if layout == "F":
        return np.asfortranarray(a)
    if layout == "T":
        return np.ascontiguousarray(a.T).T
    if layout == "strided":
        if a.ndim == 1:
            w = np.zeros(2 * a.shape[0], dtype=a.dtype)
            w[::2] = a
            return w[::2]
        w = np.full((a.shape[0], 2 * a.shape[1]), -7, dtype=a.dtype)
        w[:, ::2] = a
        return w[:, ::2]
    raise ValueError(layout)


def mesh_f32(m):
    """The mesh whose node positions are those that single-precision lon/lat values (degrees) denote."""
    from . import gen, ref

    lon, lat = m.lonlat()
    lon32, lat32 = np.asarray(lon, dtype=np.float32).astype(float), np.asarray(lat, dtype=np.float32).astype(float)
    out = gen.Mesh(ref.lonlat_to_xyz(lon32, lat32), m.faces, dict(m.desc, float32=True), m.closed)
    out.lonlat32 = (np.asarray(lon, dtype=np.float32), np.asarray(lat, dtype=np.float32))
    return out


CONVENTIONS = [(INT_FILL, 0), (INT_FILL, 0), (-1, 0), (-1, 1), (0, 1), (999999, 0)]


def grid_from_mesh(m, width=None, extra=None, layout="C", convention=None):
    """Grid via the explicit-topology constructor with standard-form inputs (fresh arrays).  A mesh made by mesh_f32 hands over
    its float32 coordinate arrays."""
    if getattr(m, "lonlat32", None) is not None:
        lon, lat = (np.array(a) for a in m.lonlat32)
    else:
        lon, lat = m.lonlat()
    fillv, start = convention if convention is not None else (INT_FILL, 0)
    conn = m.padded(width=width)
    extra = dict(extra or {})
    if (fillv, start) != (INT_FILL, 0):
        # the caller's own index convention (one-based, padded with 0 / -1 ...) for every table handed over
        def conv(t):
            t = np.asarray(t)
            out = t.astype(np.int64) + start
            out[t == INT_FILL] = fillv
            return out

        conn = conv(conn)
        extra = {k: (conv(v) if k.endswith("_connectivity") else v) for k, v in extra.items()}
    conn = with_layout(conn, layout)
    kw = {k: with_layout(v, layout) for k, v in extra.items()}
    return ux().Grid.from_topology(
        node_lon=with_layout(lon, "strided" if layout == "strided" else "C"), node_lat=with_layout(lat, "strided" if layout == "strided" else "C"),
        face_node_connectivity=conn, fill_value=fillv, start_index=start, **kw
    )


def rows(arr, fill=INT_FILL):
    a = np.asarray(arr)
    return [[int(v) for v in r if v != fill] for r in a]


def padding_at_end(arr, fill=INT_FILL):
    a = np.asarray(arr)
    if a.ndim != 2:
        return True
    isf = a == fill
    # once fill appears in a row everything after must be fill
    return bool(np.all(isf[:, 1:] >= isf[:, :-1]))


def standard_table(da, target_size=None, name="", padding_position=True):
    """Returns list of problems with a connectivity DataArray's form."""
    probs = []
    a = np.asarray(da.values if hasattr(da, "values") else da)
    if a.dtype != INT_DTYPE:
        probs.append("dtype=%s" % a.dtype)
        return probs
    if hasattr(da, "attrs") and "_FillValue" in da.attrs:
        if da.attrs["_FillValue"] != INT_FILL:
            probs.append("_FillValue attr=%r" % (da.attrs["_FillValue"],))
    if padding_position and not padding_at_end(a):
        probs.append("padding not at row end")
    nf = a[a != INT_FILL]
    if nf.size and nf.min() < 0:
        probs.append("negative index %d" % nf.min())
    if target_size is not None and nf.size and nf.max() >= target_size:
        probs.append("index %d >= %d" % (nf.max(), target_size))
    return probs


def grid_node_xyz(grid):
    """Node positions as unit vectors, from the grid's reported lon/lat (independent math)."""
    return ref.lonlat_to_xyz(np.asarray(grid.node_lon.values, dtype=float), np.asarray(grid.node_lat.values, dtype=float))


def grid_face_rings(grid):
    conn = np.asarray(grid.face_node_connectivity.values)
    return rows(conn)


def faces_match(grid, m, tol=1e-9, allow_reflection=False, pole_tol=2e-4):
    """Compare the grid's faces with model mesh m: same count/order, per face same cyclic
    sequence of corner positions.  Returns (ok, info)."""
    rings = grid_face_rings(grid)
    if len(rings) != m.n_face:
        return False, {"why": "n_face", "got": len(rings), "want": m.n_face}
    xyz = grid_node_xyz(grid)
    n = len(xyz)
    for fi, r in enumerate(rings):
        if any(v < 0 or v >= n for v in r):
            return False, {"why": "index out of range", "face": fi, "row": r}
        P = xyz[r]
        Q = m.ring_pos(fi)
        if len(r) != len(Q):
            return False, {"why": "face size", "face": fi, "got": len(r), "want": len(Q)}
        t = tol
        if np.any(np.abs(Q[:, 2]) > 1 - 1e-7):
            t = pole_tol
        if not ref.same_cycle_pos(P, Q, tol=t, allow_reflection=allow_reflection):
            return False, {"why": "corner positions", "face": fi, "got": P.tolist(), "want": Q.tolist()}
    return True, None


def mesh_stats(m):
    sizes = sorted({len(f) for f in m.faces})
    return {"n_face": m.n_face, "n_node": m.n_node, "sizes": sizes, "closed": bool(m.closed)}
