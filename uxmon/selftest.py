"""Self-test of the reference model (oracle sanity): two independent area formulas, cyclic
equality, interval cover."""
import math
import numpy as np
from . import gen, ref


def main():
    for name in ("cube", "dodecahedron", "icosahedron"):
        m = gen.polyhedron(name)
        a = [ref.poly_area_fan(m.ring_pos(i)) for i in range(m.n_face)]
        g = [ref.poly_area_girard(m.ring_pos(i)) for i in range(m.n_face)]
        assert np.allclose(a, g, rtol=0, atol=1e-12), (name, a, g)
        assert abs(sum(a) - 4 * math.pi) < 1e-11
        assert abs(a[0] - 4 * math.pi / m.n_face) < 1e-11
    m = gen.voronoi(50, 3)
    for i in range(m.n_face):
        P = m.ring_pos(i)
        assert abs(ref.poly_area_fan(P) - ref.poly_area_girard(P)) < 1e-11
        assert ref.is_convex_ccw(P)
    assert ref.same_cycle([1, 2, 3], [3, 1, 2]) and not ref.same_cycle([1, 2, 3], [3, 2, 1])
    assert ref.same_cycle([1, 2, 3], [3, 2, 1], allow_reflection=True)
    lo, hi, w = ref.lon_interval_cover(np.deg2rad([350, 10, 5]))
    assert abs(math.degrees(lo) - 350) < 1e-9 and abs(math.degrees(hi) - 10) < 1e-9 and abs(math.degrees(w) - 20) < 1e-9
    a = ref.unit(np.array([1.0, 0.2, 0.1])); b = ref.unit(np.array([0.3, 1.0, -0.2]))
    assert abs(ref.angle(a, b) - math.acos(np.dot(a, b))) < 1e-14
    R = ref.rotation_taking(a, b)
    assert np.allclose(R @ a, b) and np.allclose(R @ R.T, np.eye(3))


if __name__ == "__main__":
    main()
    print("selftest ok")
