"""Mesh generators.  Every mesh is a pure function of its descriptor (a small dict), so a
replay file only has to store the descriptor.

Mesh = (xyz (n,3) unit vectors, faces list[list[int]] CCW from outside).
"""

import itertools
import math
import os

import numpy as np

from . import ref

INT_FILL = np.iinfo(np.intp).min


class Mesh:
    def __init__(self, xyz, faces, desc, closed):
        self.xyz = np.asarray(xyz, dtype=float)
        self.faces = [list(map(int, f)) for f in faces]
        self.desc = desc
        self.closed = closed  # tiles the whole sphere

    @property
    def n_node(self):
        return len(self.xyz)

    @property
    def n_face(self):
        return len(self.faces)

    def lonlat(self):
        return ref.xyz_to_lonlat(self.xyz)

    def padded(self, width=None, fill=INT_FILL, dtype=np.intp):
        w = max(len(f) for f in self.faces)
        if width is not None:
            w = max(w, width)
        out = np.full((len(self.faces), w), fill, dtype=dtype)
        for i, f in enumerate(self.faces):
            out[i, : len(f)] = f
        return out

    def ring_pos(self, fi):
        return self.xyz[self.faces[fi]]

    def copy(self, desc_extra=None):
        d = dict(self.desc)
        if desc_extra:
            d.update(desc_extra)
        return Mesh(self.xyz.copy(), [list(f) for f in self.faces], d, self.closed)


def _rng(*keys):
    return np.random.default_rng([int(k) & 0x7FFFFFFF for k in keys])


def _orient(xyz, face):
    """Return face oriented CCW from outside."""
    P = xyz[face]
    c = P.mean(axis=0)
    s = 0.0
    for i in range(len(face)):
        s += np.dot(np.cross(P[i], P[(i + 1) % len(face)]), c)
    return list(face) if s > 0 else list(face)[::-1]


def _safe_points(rng, n):
    """Random unit vectors, none within the library's pole-snap band (|z| > 1-1e-6)."""
    p = ref.unit(rng.normal(size=(n, 3)))
    bad = np.abs(p[:, 2]) > 1 - 1e-6
    while bad.any():
        p[bad] = ref.unit(rng.normal(size=(int(bad.sum()), 3)))
        bad = np.abs(p[:, 2]) > 1 - 1e-6
    return p


def voronoi(n, seed):
    from scipy.spatial import SphericalVoronoi

    rng = _rng(seed, n, 11)
    # resample until every cell stays within ~78 deg of its generator (no near-hemisphere cells)
    # (very few generators are rarely that well spread: after 2000 draws the bound is relaxed to ~87 deg - still inside a hemisphere)
    for _try in range(6000):
        pts = _safe_points(rng, n)
        sv = SphericalVoronoi(pts, radius=1.0, center=np.zeros(3))
        if all(np.min(ref.unit(sv.vertices[r]) @ pts[i]) > (0.2 if _try < 2000 else 0.05) for i, r in enumerate(sv.regions)):
            break
    else:
        raise RuntimeError("no well-spread generator set found")
    sv.sort_vertices_of_regions()
    xyz = ref.unit(sv.vertices)
    faces = [_orient(xyz, list(r)) for r in sv.regions]
    return Mesh(xyz, faces, {"family": "voronoi", "n": n, "seed": seed}, True)


def delaunay(n, seed):
    from scipy.spatial import ConvexHull

    rng = _rng(seed, n, 13)
    # resample until the origin is well inside the hull: every triangle then has a
    # circumradius below acos(0.2) ~ 78 deg (no face anywhere near a hemisphere)
    for _try in range(2000):
        pts = _safe_points(rng, n)
        hull = ConvexHull(pts)
        if hull.equations[:, 3].max() < -0.2:
            break
    else:
        raise RuntimeError("no well-centred point set found")
    faces = [_orient(pts, list(s)) for s in hull.simplices]
    return Mesh(pts, faces, {"family": "delaunay", "n": n, "seed": seed}, True)


def clustered(n, seed):
    """Delaunay triangulation of a strongly non-uniform point set: a sparse, well-spread background plus tight
    clusters (caps of 0.5..4 degrees).  Gives nodes of valence >= 4 surrounded by a mix of tiny and very large,
    very elongated triangles."""
    from scipy.spatial import ConvexHull

    rng = _rng(seed, n, 19)
    for _try in range(2000):
        nb = max(8, n // 3)
        base = _safe_points(rng, nb)
        pts = [base]
        left = n - nb
        while left > 0:
            k = int(min(left, rng.integers(3, 9)))
            c = base[int(rng.integers(0, nb))]
            r = math.radians(float(rng.uniform(0.5, 4.0)))
            q = ref.unit(c[None, :] + r * rng.normal(size=(k, 3)))
            pts.append(q)
            left -= k
        P = np.concatenate(pts)
        if np.any(np.abs(P[:, 2]) > 1 - 1e-6):
            continue
        hull = ConvexHull(P)
        if hull.equations[:, 3].max() < -0.2 and len(hull.vertices) == len(P):
            break
    else:
        raise RuntimeError("no clustered point set found")
    faces = [_orient(P, list(s)) for s in hull.simplices]
    return Mesh(P, faces, {"family": "clustered", "n": n, "seed": seed}, True)


def bipyramid(k, seed):
    """Two apex nodes of valence k (3..10) joined to a ring whose nodes alternate between very different
    distances from the apexes: faces of very different sizes around one node."""
    rng = _rng(seed, k, 37)
    hi, lo = math.radians(float(rng.uniform(70, 86))), math.radians(float(rng.uniform(-65, -30)))
    ring = []
    for i in range(k):
        lat = hi if i % 2 == 0 else lo
        lat += math.radians(float(rng.uniform(-2, 2)))
        lon = 2 * math.pi * (i + 0.3 * float(rng.uniform(-1, 1))) / k
        ring.append([math.cos(lat) * math.cos(lon), math.cos(lat) * math.sin(lon), math.sin(lat)])
    xyz = np.array([[0, 0, 1.0], [0, 0, -1.0]] + ring)
    faces = []
    for i in range(k):
        a, b = 2 + i, 2 + (i + 1) % k
        faces.append([0, a, b])
        faces.append([1, b, a])
    R = ref.rotation_matrix(rng)
    xyz = ref.unit(xyz @ R.T)
    faces = [_orient(xyz, f) for f in faces]
    order = rng.permutation(len(faces))
    faces = [faces[i] for i in order]
    return Mesh(xyz, faces, {"family": "bipyramid", "k": k, "seed": seed}, True)


def merged(n, seed, frac=0.5):
    """Delaunay triangulation with adjacent faces merged across an edge whenever the union
    stays strictly convex: mixed 3/4/5/6-gons, high-valence nodes."""
    m = delaunay(n, seed)
    rng = _rng(seed, n, 17)
    faces = [list(f) for f in m.faces]
    alive = [True] * len(faces)
    ef = ref.edge_faces(faces)
    edges = sorted(ef.keys(), key=lambda e: sorted(e))
    rng.shuffle(edges)
    owner = list(range(len(faces)))  # face id -> current merged face id

    def find(i):
        while owner[i] != i:
            i = owner[i]
        return i

    for e in edges:
        if rng.random() > frac:
            continue
        a, b = [find(x) for x in ef[e]]
        if a == b:
            continue
        fa, fb = faces[a], faces[b]
        if len(fa) + len(fb) - 2 > 8:
            continue
        shared = set(fa) & set(fb)
        if len(shared) != 2:
            continue
        u, v = tuple(e)
        # rotate fa so that it ends with (u,v) consecutive: fa = [..., u, v] cyclic
        def rot_to_edge(f, p, q):
            """ring f rotated to start at q and end at p, if (p -> q) is a directed edge of f"""
            k = len(f)
            for s in range(k):
                if f[s] == p and f[(s + 1) % k] == q:
                    return [f[(s + 1 + t) % k] for t in range(k)]
            return None

        ra = rot_to_edge(fa, u, v) or rot_to_edge(fa, v, u)
        if ra is None:
            continue
        # ra starts at q (second of the shared edge in fa's direction) and ends at p
        p, q = ra[-1], ra[0]
        rb = rot_to_edge(fb, q, p)
        if rb is None:
            continue
        # rb starts at p and ends at q ; union ring: ra (q ... p) + rb[1:-1] (between p and q)
        ring = ra + rb[1:-1]
        if len(set(ring)) != len(ring):
            continue
        if not ref.is_convex_ccw(m.xyz[ring], tol=1e-9):
            continue
        faces[a] = ring
        alive[b] = False
        owner[b] = a
    out = [f for f, al in zip(faces, alive) if al]
    # drop nodes that are no longer used? keep them out: renumber used nodes only
    used = sorted({v for f in out for v in f})
    remap = {o: i for i, o in enumerate(used)}
    out = [[remap[v] for v in f] for f in out]
    return Mesh(m.xyz[used], out, {"family": "merged", "n": n, "seed": seed, "frac": frac}, True)


_PHI = (1 + 5**0.5) / 2


def _hull_faces(pts):
    """Faces of a convex polyhedron from its vertices: coplanar hull triangles are merged."""
    from scipy.spatial import ConvexHull

    hull = ConvexHull(pts)
    groups = {}
    for s, eq in zip(hull.simplices, hull.equations):
        key = tuple(np.round(eq, 6))
        groups.setdefault(key, set()).update(s.tolist())
    faces = []
    for key, vs in groups.items():
        nrm = np.array(key[:3])
        vs = list(vs)
        c = pts[vs].mean(axis=0)
        ref_dir = pts[vs[0]] - c
        ref_dir = ref_dir - np.dot(ref_dir, nrm) * nrm
        other = np.cross(nrm, ref_dir)
        ang = [math.atan2(np.dot(pts[v] - c, other), np.dot(pts[v] - c, ref_dir)) for v in vs]
        order = [v for _, v in sorted(zip(ang, vs))]
        faces.append(order)
    faces.sort(key=lambda f: (min(f), f))
    return faces


def polyhedron(name):
    if name == "tetrahedron":
        v = np.array([[1, 1, 1], [1, -1, -1], [-1, 1, -1], [-1, -1, 1]], float)
    elif name == "cube":
        v = np.array(list(itertools.product([-1, 1], repeat=3)), float)
    elif name == "octahedron":
        v = np.array([[1, 0, 0], [-1, 0, 0], [0, 1, 0], [0, -1, 0], [0, 0, 1], [0, 0, -1]], float)
    elif name == "icosahedron":
        v = []
        for s1 in (-1, 1):
            for s2 in (-1, 1):
                v += [[0, s1, s2 * _PHI], [s1, s2 * _PHI, 0], [s2 * _PHI, 0, s1]]
        v = np.array(v, float)
    elif name == "dodecahedron":
        v = [list(p) for p in itertools.product([-1, 1], repeat=3)]
        for s1 in (-1, 1):
            for s2 in (-1, 1):
                v += [[0, s1 / _PHI, s2 * _PHI], [s1 / _PHI, s2 * _PHI, 0], [s2 * _PHI, 0, s1 / _PHI]]
        v = np.array(v, float)
    elif name == "pyramid":  # square pyramid: n_node = n_face = 5
        v = np.array([[1, 1, -0.5], [-1, 1, -0.5], [-1, -1, -0.5], [1, -1, -0.5], [0, 0, 1.2]], float)
    elif name == "pentapyramid":  # n_node = n_face = 6
        v = [[math.cos(2 * math.pi * i / 5), math.sin(2 * math.pi * i / 5), -0.4] for i in range(5)]
        v.append([0, 0, 1.1])
        v = np.array(v, float)
    elif name == "prism3":
        v = []
        for z in (-0.7, 0.7):
            v += [[math.cos(2 * math.pi * i / 3), math.sin(2 * math.pi * i / 3), z] for i in range(3)]
        v = np.array(v, float)
    elif name == "prism6":
        v = []
        for z in (-0.6, 0.6):
            v += [[math.cos(2 * math.pi * i / 6), math.sin(2 * math.pi * i / 6), z] for i in range(6)]
        v = np.array(v, float)
    elif name == "truncated_icosahedron":
        v = []
        P = _PHI
        base = [(0, 1, 3 * P), (1, 2 + P, 2 * P), (P, 2, 2 * P + 1)]
        for b in base:
            for perm in ((0, 1, 2), (1, 2, 0), (2, 0, 1)):
                for signs in itertools.product([-1, 1], repeat=3):
                    w = [signs[i] * b[perm[i]] for i in range(3)]
                    v.append(w)
        v = np.unique(np.round(np.array(v, float), 9), axis=0)
    else:
        raise ValueError(name)
    faces = _hull_faces(v)
    xyz = ref.unit(v)
    # tilt a little so that no node sits exactly on a pole / meridian by accident
    R = ref.rotation_matrix(_rng(12345, len(name)))
    xyz = xyz @ R.T
    faces = [_orient(xyz, f) for f in faces]
    return Mesh(xyz, faces, {"family": "polyhedron", "name": name}, True)


POLYHEDRA = [
    "tetrahedron", "cube", "octahedron", "icosahedron", "dodecahedron", "pyramid",
    "pentapyramid", "prism3", "prism6", "truncated_icosahedron",
]


def latlon_patch(nx, ny, lon0, lat0, dlon, dlat):
    """Structured quad patch (partial grid)."""
    lons = lon0 + dlon * np.arange(nx + 1)
    lats = lat0 + dlat * np.arange(ny + 1)
    LON, LAT = np.meshgrid(lons, lats)
    xyz = ref.lonlat_to_xyz(LON.ravel(), LAT.ravel())
    faces = []
    for j in range(ny):
        for i in range(nx):
            a = j * (nx + 1) + i
            faces.append([a, a + 1, a + nx + 2, a + nx + 1])
    faces = [_orient(xyz, f) for f in faces]
    return Mesh(
        xyz, faces,
        {"family": "latlon_patch", "nx": nx, "ny": ny, "lon0": lon0, "lat0": lat0, "dlon": dlon, "dlat": dlat},
        False,
    )


def latlon_global(nlon, nlat):
    """Closed regular longitude-latitude grid: quads between parallels, triangles around the two pole nodes.
    Node latitudes are symmetric about the equator (many corner pairs share x, y and differ in z only)."""
    lats = np.linspace(-90.0, 90.0, nlat + 1)[1:-1]
    lons = -180.0 + 360.0 * np.arange(nlon) / nlon
    xyz = [np.array([0.0, 0.0, -1.0])]
    for la in lats:
        for lo in lons:
            xyz.append(ref.lonlat_to_xyz(lo, la))
    xyz.append(np.array([0.0, 0.0, 1.0]))
    xyz = np.array(xyz)
    nid = lambda j, i: 1 + j * nlon + (i % nlon)  # noqa: E731
    top = len(xyz) - 1
    faces = []
    for i in range(nlon):
        faces.append([0, nid(0, i + 1), nid(0, i)])
    for j in range(len(lats) - 1):
        for i in range(nlon):
            faces.append([nid(j, i), nid(j, i + 1), nid(j + 1, i + 1), nid(j + 1, i)])
    for i in range(nlon):
        faces.append([nid(len(lats) - 1, i), nid(len(lats) - 1, i + 1), top])
    faces = [_orient(xyz, f) for f in faces]
    return Mesh(xyz, faces, {"family": "latlon_global", "nlon": nlon, "nlat": nlat}, True)


def ring_strip(n, half_width_deg=4.0):
    """n quads around the equator between two parallels (2n nodes, 3n edges, n faces): a mesh whose element counts can be set
    exactly (sizes next to powers of two, chunk sizes, ...)."""
    lons = -180.0 + 360.0 * np.arange(n) / n
    xyz = np.concatenate([ref.lonlat_to_xyz(lons, np.full(n, -half_width_deg)), ref.lonlat_to_xyz(lons, np.full(n, half_width_deg))])
    faces = [[i, (i + 1) % n, n + (i + 1) % n, n + i] for i in range(n)]
    return Mesh(xyz, faces, {"family": "ring_strip", "n": n}, False)


def capped_ring(k, cap_lat_deg=60.0):
    """one k-gon (a polar cap bounded by the parallel cap_lat) over a ring of k quads: a face with very many corners (k >= 256:
    counts beyond one byte) next to small ones, i.e. a table k wide that is almost all padding."""
    lons = -180.0 + 360.0 * np.arange(k) / k
    xyz = np.concatenate([ref.lonlat_to_xyz(lons, np.full(k, cap_lat_deg)), ref.lonlat_to_xyz(lons, np.full(k, cap_lat_deg - 8.0))])
    faces = [list(range(k))] + [[k + i, k + (i + 1) % k, (i + 1) % k, i] for i in range(k)]
    return Mesh(xyz, faces, {"family": "capped_ring", "k": k}, False)


def cubed_sphere(ne):
    """Equiangular cubed sphere with shared nodes (closed quad mesh)."""
    t = np.tan(np.linspace(-math.pi / 4, math.pi / 4, ne + 1))
    pts = {}
    xyz = []
    faces = []

    def nid(p):
        key = tuple(np.round(ref.unit(np.array(p, float)), 10))
        if key not in pts:
            pts[key] = len(xyz)
            xyz.append(ref.unit(np.array(p, float)))
        return pts[key]

    cubefaces = [
        lambda a, b: (1, a, b), lambda a, b: (-1, -a, b), lambda a, b: (-a, 1, b),
        lambda a, b: (a, -1, b), lambda a, b: (-b, a, 1), lambda a, b: (b, a, -1),
    ]
    for cf in cubefaces:
        for i in range(ne):
            for j in range(ne):
                ring = [nid(cf(t[i], t[j])), nid(cf(t[i + 1], t[j])), nid(cf(t[i + 1], t[j + 1])), nid(cf(t[i], t[j + 1]))]
                faces.append(ring)
    xyz = np.array(xyz)
    R = ref.rotation_matrix(_rng(777, ne))
    xyz = xyz @ R.T
    faces = [_orient(xyz, f) for f in faces]
    return Mesh(xyz, faces, {"family": "cubed_sphere", "ne": ne}, True)


# --------------------------------------------------------------------------- transformations
def renumbered(m, seed, nodes=True, faces=True, starts=True):
    rng = _rng(seed, 23)
    perm_n = rng.permutation(m.n_node) if nodes else np.arange(m.n_node)  # new id of old node
    xyz = np.empty_like(m.xyz)
    xyz[perm_n] = m.xyz
    fl = [[int(perm_n[v]) for v in f] for f in m.faces]
    if starts:
        fl = [list(np.roll(f, int(rng.integers(0, len(f))))) for f in fl]
    order = rng.permutation(len(fl)) if faces else np.arange(len(fl))
    fl = [fl[i] for i in order]
    out = Mesh(xyz, fl, dict(m.desc, renumber=seed), m.closed)
    out.face_order = [int(i) for i in order]  # new face k is old face order[k]
    out.node_perm = perm_n
    return out


def rotated(m, R, tag):
    return Mesh(m.xyz @ np.asarray(R).T, m.faces, dict(m.desc, rot=tag), m.closed)


def random_rotated(m, seed):
    return rotated(m, ref.rotation_matrix(_rng(seed, 29)), ["rand", seed])


def snap(m, kind, idx=0):
    """Rigidly rotate m so that a chosen feature lands on a special place.
    kind: node_npole, node_spole, node_am (lon=180,lat=~), node_pm (lon=0),
          face_npole (face centre at the north pole -> pole-enclosing face),
          face_spole, face_origin (face centre at lon=0,lat=0), face_am (face centre on lon=180)
    """
    if kind.startswith("node"):
        v = m.xyz[idx % m.n_node]
    else:
        v = ref.unit(m.xyz[m.faces[idx % m.n_face]].mean(axis=0))
    if kind.endswith("near_npole") or kind.endswith("near_spole"):
        # 1e-3 .. 4e-3 rad (0.06 .. 0.23 degrees) away from the pole: outside the library's pole-snapping band, inside any wider one
        c = 1e-3 * (1 + idx % 4)
        lo = 0.7 + 1.3 * (idx % 5)
        tgt = np.array([math.sin(c) * math.cos(lo), math.sin(c) * math.sin(lo), math.cos(c) * (1.0 if kind.endswith("npole") else -1.0)])
    elif kind.endswith("npole"):
        tgt = np.array([0, 0, 1.0])
    elif kind.endswith("spole"):
        tgt = np.array([0, 0, -1.0])
    elif kind.endswith("_am"):
        lat = math.asin(max(-0.95, min(0.95, v[2])))
        tgt = np.array([-math.cos(lat), 0.0, math.sin(lat)])
    elif kind.endswith("_pm"):
        lat = math.asin(max(-0.95, min(0.95, v[2])))
        tgt = np.array([math.cos(lat), 0.0, math.sin(lat)])
    elif kind.endswith("origin"):
        tgt = np.array([1.0, 0, 0])
    else:
        raise ValueError(kind)
    R = ref.rotation_taking(v, tgt)
    out = rotated(m, R, ["snap", kind, idx])
    if kind.startswith("node"):
        # make the snapped node exact
        out.xyz[idx % m.n_node] = tgt
    return out


def partial(m, seed, keep_frac=0.6, mode="random"):
    """Sub-mesh keeping some faces; nodes compacted.  mode: random | isolated | one"""
    rng = _rng(seed, 31)
    nf = m.n_face
    if mode == "one":
        keep = [int(rng.integers(0, nf))]
    elif mode == "isolated":
        # greedily pick faces that share no node
        order = rng.permutation(nf)
        used = set()
        keep = []
        for fi in order:
            if not (set(m.faces[fi]) & used):
                keep.append(int(fi))
                used |= set(m.faces[fi])
            if len(keep) >= max(2, int(nf * 0.15)):
                break
    else:
        k = max(1, int(round(nf * keep_frac)))
        keep = sorted(int(i) for i in rng.choice(nf, size=k, replace=False))
    fl = [m.faces[i] for i in keep]
    used = sorted({v for f in fl for v in f})
    remap = {o: i for i, o in enumerate(used)}
    fl = [[remap[v] for v in f] for f in fl]
    out = Mesh(m.xyz[used], fl, dict(m.desc, partial=[seed, keep_frac, mode]), False)
    out.kept_faces = keep
    return out


def with_orphans(m, seed, k):
    """k extra nodes that no face uses, inserted at random places of the node numbering (legal in every format that
    stores a node table: a regional cut that keeps the parent's nodes, a hand-edited mesh)."""
    rng = _rng(seed, 43)
    n = m.n_node + k
    slots = np.sort(rng.choice(n, size=k, replace=False))
    is_orphan = np.zeros(n, dtype=bool)
    is_orphan[slots] = True
    new_of_old = np.nonzero(~is_orphan)[0]
    xyz = np.empty((n, 3))
    xyz[new_of_old] = m.xyz
    P = _safe_points(rng, max(k, 4))[:k]
    xyz[slots] = P
    out = Mesh(xyz, [[int(new_of_old[v]) for v in f] for f in m.faces], dict(m.desc, orphans=[seed, k]), False)
    out.orphans = [int(i) for i in slots]
    out.tiles_sphere = m.closed
    return out


def shrunk(m, seed, scale):
    """High-resolution regional patch: the faces within ~70 degrees of a random node, contracted towards that node by
    `scale` (p -> unit(c + scale*(p - c))): same incidence and orientation, face sizes of ~scale times the original."""
    rng = _rng(seed, 37)
    c = m.xyz[int(rng.integers(0, m.n_node))]
    near = m.xyz @ c > 0.35
    keep = [i for i, f in enumerate(m.faces) if all(near[v] for v in f)]
    if not keep:
        keep = [int(np.argmax([min(m.xyz[v] @ c for v in f) for f in m.faces]))]
    fl = [m.faces[i] for i in keep]
    used = sorted({v for f in fl for v in f})
    remap = {o: i for i, o in enumerate(used)}
    fl = [[remap[v] for v in f] for f in fl]
    xyz = ref.unit(c[None, :] + scale * (m.xyz[used] - c[None, :]))
    out = Mesh(xyz, fl, dict(m.desc, shrink=[seed, scale]), False)
    out.kept_faces = keep
    return out


def _wedges_close(xyz, faces, tol=1e-3):
    """True if around every node the corner angles of its faces add up to at most a full turn (+tol) and exactly a full turn where the
    node is interior - i.e. the faces do not overlap.  Convex-hull triangulations of nearly coplanar clusters can violate this."""
    import math as _m

    tot = np.zeros(len(xyz))
    cnt = {}
    for f in faces:
        k = len(f)
        for j, v in enumerate(f):
            a, b, c = xyz[f[j - 1]], xyz[v], xyz[f[(j + 1) % k]]
            u, w = a - b, c - b
            u, w = u - np.dot(u, b) * b, w - np.dot(w, b) * b
            ang = _m.atan2(float(np.dot(np.cross(w, u), b)), float(np.dot(u, w)))  # from next to previous, counter-clockwise about b
            tot[v] += ang % (2 * _m.pi)
            for e in ((f[j - 1], v), (v, f[(j + 1) % k])):
                cnt[frozenset(e)] = cnt.get(frozenset(e), 0) + 1
    if np.any(tot > 2 * _m.pi + tol):
        return False
    interior = np.ones(len(xyz), dtype=bool)
    for e, c in cnt.items():
        if c != 4:  # every edge is visited twice per face
            for v in e:
                interior[v] = False
    return bool(np.all(np.abs(tot[interior] - 2 * _m.pi) < tol))


def refined(n, seed, radius):
    """Closed Delaunay mesh, locally refined: a well-spread background plus one or two tight clusters of `radius` radians
    (down to 1e-6): triangles of a few metres next to triangles of thousands of kilometres."""
    from scipy.spatial import ConvexHull

    rng = _rng(seed, n, 41)
    for _try in range(2000):
        nb = max(8, n // 2)
        base = _safe_points(rng, nb)
        pts = [base]
        left = n - nb
        for _c in range(2):
            k = left if _c == 1 else left // 2
            if k <= 0:
                continue
            c = base[int(rng.integers(0, nb))]
            t1 = ref.unit(np.cross(c, [0.3, 0.5, 0.8]))
            t2 = np.cross(c, t1)
            uv = rng.uniform(-1, 1, size=(k, 2))
            pts.append(ref.unit(c[None, :] + radius * (uv[:, :1] * t1[None, :] + uv[:, 1:] * t2[None, :])))
        P = np.concatenate(pts)
        if np.any(np.abs(P[:, 2]) > 1 - 1e-6):
            continue
        hull = ConvexHull(P)
        for _shrink in range(6):  # cluster points the hull code finds coplanar with their neighbours are left out
            if len(hull.vertices) == len(P):
                break
            P = P[np.sort(hull.vertices)]
            hull = ConvexHull(P)
        if hull.equations[:, 3].max() < (-0.2 if _try < 500 else -0.05) and len(hull.vertices) == len(P) and len(P) >= 8:
            if _wedges_close(P, [_orient(P, list(sm)) for sm in hull.simplices]):
                break  # (hulls of nearly coplanar clusters occasionally come out with overlapping triangles: drawn again)
    else:
        raise RuntimeError("no refined point set found")
    faces = [_orient(P, list(s)) for s in hull.simplices]
    return Mesh(P, faces, {"family": "refined", "n": n, "seed": seed, "radius": radius}, True)


# real meshes: the repository's sample files, decoded independently (uxmon/samplefiles.py); (format, file, n_face, closed)
SAMPLE_MESHES = [
    ("ugrid", "ugrid/quad-hexagon/grid.nc", 4, False),
    ("ugrid", "ugrid/quad-hexagon/triangulated-grid.nc", 28, False),
    ("mpas", "mpas/QU/mesh.QU.1920km.151026.nc", 162, True),
    ("exodus", "exodus/mixed/mixed.exo", 254, False),
    ("mpas_dual", "mpas/QU/mesh.QU.1920km.151026.nc", 320, True),
    ("exodus", "exodus/outCSne8/outCSne8.g", 384, True),
    ("ugrid", "ugrid/ov_RLL10deg_CSne4/ov_RLL10deg_CSne4.ug", 856, False),
    ("ugrid", "ugrid/outCSne30/outCSne30.ug", 5400, True),
    ("ugrid", "ugrid/fesom/fesom.mesh.diag.nc", 5839, False),
]
_SAMPLE_CACHE = {}


def sample_mesh(fmt, rel):
    from . import samplefiles

    key = (fmt, rel)
    if key not in _SAMPLE_CACHE:
        m = samplefiles.decode(fmt, rel)
        closed = [c for f_, r_, n_, c in SAMPLE_MESHES if (f_, r_) == key]
        _SAMPLE_CACHE[key] = Mesh(m.xyz, m.faces, {"family": "sample", "format": fmt, "file": rel}, bool(closed and closed[0]))
    return _SAMPLE_CACHE[key].copy()


# --------------------------------------------------------------------------- catalogue
def build(desc):
    """Rebuild a mesh from a descriptor (used by replay)."""
    fam = desc["family"]
    if fam == "sample":
        m = sample_mesh(desc["format"], desc["file"])
        m.desc = {"family": "sample", "format": desc["format"], "file": desc["file"]}
        for key, val in desc.get("ops", []):
            m = apply_op(m, key, val)
        return m
    if fam == "voronoi":
        m = voronoi(desc["n"], desc["seed"])
    elif fam == "delaunay":
        m = delaunay(desc["n"], desc["seed"])
    elif fam == "merged":
        m = merged(desc["n"], desc["seed"], desc.get("frac", 0.5))
    elif fam == "polyhedron":
        m = polyhedron(desc["name"])
    elif fam == "latlon_patch":
        m = latlon_patch(desc["nx"], desc["ny"], desc["lon0"], desc["lat0"], desc["dlon"], desc["dlat"])
    elif fam == "cubed_sphere":
        m = cubed_sphere(desc["ne"])
    elif fam == "latlon_global":
        m = latlon_global(desc["nlon"], desc["nlat"])
    elif fam == "clustered":
        m = clustered(desc["n"], desc["seed"])
    elif fam == "bipyramid":
        m = bipyramid(desc["k"], desc["seed"])
    elif fam == "refined":
        m = refined(desc["n"], desc["seed"], desc["radius"])
    elif fam == "ring_strip":
        m = ring_strip(desc["n"])
    elif fam == "capped_ring":
        m = capped_ring(desc["k"])
    else:
        raise ValueError(fam)
    for key, val in desc.get("ops", []):
        m = apply_op(m, key, val)
    if desc.get("float32"):
        from . import ux

        m = ux.mesh_f32(m)  # node coordinates as single-precision lon/lat (what most model output carries)
    return m


def apply_op(m, key, val):
    if key == "partial":
        out = partial(m, *val)
    elif key == "renumber":
        out = renumbered(m, val)
    elif key == "rot":
        out = random_rotated(m, val)
    elif key == "snap":
        out = snap(m, *val)
    elif key == "shrink":
        out = shrunk(m, *val)
    else:
        raise ValueError(key)
    d = dict(m.desc)
    d["ops"] = list(m.desc.get("ops", [])) + [[key, val]]
    for k in ("partial", "renumber", "rot", "shrink"):
        d.pop(k, None)
    out.desc = d
    return out


DEFAULT_FAMILIES = ["voronoi", "delaunay", "merged", "polyhedron", "latlon_patch", "cubed_sphere", "latlon_global", "clustered", "bipyramid"]
ALL_FAMILIES = DEFAULT_FAMILIES + ["fine_patch", "refined", "sample"]  # + high-resolution patches / locally refined closed meshes / real meshes from the sample files


def random_mesh(rng, max_faces=200, allow_partial=True, families=None):
    """Draw a mesh descriptor-first so that it can be replayed."""
    fams = families or ["voronoi", "delaunay", "merged", "polyhedron", "latlon_patch", "cubed_sphere", "latlon_global", "clustered", "bipyramid"]
    fam = fams[int(rng.integers(0, len(fams)))]
    seed = int(rng.integers(0, 2**31 - 1))
    if fam == "voronoi":
        n = int(rng.integers(4, max(5, max_faces)))
        d = {"family": fam, "n": n, "seed": seed}
    elif fam == "delaunay":
        n = int(rng.integers(6, max(7, max_faces // 2 + 2)))
        d = {"family": fam, "n": n, "seed": seed}
    elif fam == "merged":
        n = int(rng.integers(6, max(7, max_faces // 2 + 2)))
        d = {"family": fam, "n": n, "seed": seed, "frac": float(rng.choice([0.3, 0.6, 0.9]))}
    elif fam == "polyhedron":
        d = {"family": fam, "name": POLYHEDRA[int(rng.integers(0, len(POLYHEDRA)))]}
    elif fam == "latlon_global":
        d = {"family": fam, "nlon": int(rng.integers(3, max(4, min(24, int(max_faces ** 0.5) + 3)))), "nlat": int(rng.integers(2, max(3, min(14, int(max_faces ** 0.5) + 2))))}
    elif fam == "clustered":
        d = {"family": fam, "n": int(rng.integers(12, max(13, max_faces // 2 + 2))), "seed": seed}
    elif fam == "bipyramid":
        d = {"family": fam, "k": int(rng.integers(3, 11)), "seed": seed}
    elif fam == "refined":
        d = {"family": fam, "n": int(rng.integers(14, max(15, max_faces // 2 + 2))), "seed": seed, "radius": float(rng.choice([1e-3, 1e-4, 2e-5, 1e-6]))}
    elif fam == "sample":
        import os

        from . import samplefiles

        ok = [(f_, r_) for f_, r_, n_, c_ in SAMPLE_MESHES if n_ <= 8 * max_faces and os.path.exists(os.path.join(samplefiles.root(), r_)) and os.path.getsize(os.path.join(samplefiles.root(), r_)) > 0]
        if not ok:
            return random_mesh(rng, max_faces, allow_partial, ["voronoi"])
        f_, r_ = ok[int(rng.integers(0, len(ok)))]
        d = {"family": fam, "format": f_, "file": r_}
    elif fam == "fine_patch":
        # a high-resolution regional patch: a closed mesh cut to a cap and contracted (see shrunk)
        src = random_mesh(rng, max_faces * 3, allow_partial=False, families=["voronoi", "delaunay", "merged", "cubed_sphere"])
        src["ops"] = [["shrink", [int(rng.integers(0, 10**6)), float(rng.choice([1e-2, 1e-3, 1e-4, 2e-5]))]]]
        if rng.random() < 0.5:
            src["ops"].append(["renumber", int(rng.integers(0, 10**6))])
        return src
    elif fam == "latlon_patch":
        nx = int(rng.integers(1, 9))
        ny = int(rng.integers(1, 7))
        dlon = float(rng.choice([2.0, 5.0, 10.0, 15.0]))
        dlat = float(rng.choice([2.0, 5.0, 10.0]))
        lon0 = float(rng.choice([-179.0, -60.0, -10.0, 100.0, 150.0, 170.0]))
        lat0 = float(rng.choice([-85.0, -40.0, -5.0, 20.0, -999.0]))
        if lat0 == -999.0:
            lat0 = -0.5 * ny * dlat  # symmetric about the equator
        lat0 = min(lat0, 88.0 - ny * dlat)
        d = {"family": fam, "nx": nx, "ny": ny, "lon0": lon0, "lat0": lat0, "dlon": dlon, "dlat": dlat}
    else:
        d = {"family": fam, "ne": int(rng.integers(1, 6))}
    ops = []
    if fam == "latlon_global":
        d["ops"] = [["renumber", int(rng.integers(0, 10**6))]] if rng.random() < 0.4 else []
        return d
    if allow_partial and fam != "latlon_patch" and rng.random() < 0.35:
        mode = str(rng.choice(["random", "random", "isolated", "one"]))
        ops.append(["partial", [int(rng.integers(0, 10**6)), float(rng.choice([0.3, 0.6, 0.85])), mode]])
    if rng.random() < 0.5:
        ops.append(["renumber", int(rng.integers(0, 10**6))])
    r = rng.random()
    if fam != "latlon_patch":
        if r < 0.3:
            ops.append(["rot", int(rng.integers(0, 10**6))])
        elif r < 0.6:
            kinds = ["node_npole", "node_spole", "node_am", "node_pm", "face_npole", "face_spole", "face_origin", "face_am"]
            ops.append(["snap", [kinds[int(rng.integers(0, len(kinds)))], int(rng.integers(0, 1000))]])
    d["ops"] = ops
    return d


def tiny_tables(max_faces=3, max_nodes=6, widths=(3, 4, 5)):
    """Every face-node table with <= max_faces faces whose faces are simple rings over nodes
    0..max_nodes-1 with sizes in 3..max(widths), manifold, all nodes used contiguous from 0 -
    up to node relabelling (first-appearance canonical labelling).  Purely combinatorial
    (positions are assigned on a circle-ish spiral so that geometry is irrelevant)."""
    seen = set()
    out = []
    sizes = [s for s in (3, 4, 5) if s <= max(widths)]

    def canon(faces):
        lab = {}
        res = []
        for f in faces:
            g = []
            for v in f:
                if v not in lab:
                    lab[v] = len(lab)
                g.append(lab[v])
            res.append(tuple(g))
        return tuple(res)

    rings_by_size = {}
    for s in sizes:
        rings = []
        for combo in itertools.permutations(range(max_nodes), s):
            rings.append(combo)
        rings_by_size[s] = rings
    all_rings = [r for s in sizes for r in rings_by_size[s]]

    def rec(faces):
        if faces:
            c = canon(faces)
            if c not in seen:
                ok = ref.is_manifold([list(f) for f in c])
                # no two faces with identical node sets
                ok = ok and len({frozenset(f) for f in c}) == len(c)
                # a directed edge used twice means inconsistent orientation; allow (not demanded)
                if ok:
                    seen.add(c)
                    out.append([list(f) for f in c])
        if len(faces) >= max_faces:
            return
        for r in all_rings:
            # canonical pruning: new labels must appear in first-appearance order
            used = {v for f in faces for v in f}
            nxt = len(used)
            good = True
            cur = nxt
            for v in r:
                if v in used:
                    continue
                if v != cur:
                    good = False
                    break
                used = used | {v}
                cur += 1
            if not good:
                continue
            if faces and tuple(r) == faces[-1]:
                continue
            rec(faces + [tuple(r)])

    rec([])
    return out


# --------------------------------------------------------------------------- single convex faces
def inscribed_face(k, radius_deg, seed, jitter=0.6):
    """Convex spherical k-gon inscribed in a small circle of the given angular radius around
    the north pole (rotate it afterwards).  Corners CCW seen from outside.  Pure function of args."""
    rng = _rng(seed, k, 41)
    base = 2 * math.pi * (np.arange(k) + jitter * (rng.random(k) - 0.5)) / k + rng.random() * 2 * math.pi
    base = np.sort(np.mod(base, 2 * math.pi))
    r = math.radians(radius_deg)
    xyz = np.stack([math.sin(r) * np.cos(base), math.sin(r) * np.sin(base), np.full(k, math.cos(r))], axis=1)
    return xyz


def place_face(P, placement, seed):
    """Rigidly move ring P (k,3) (centred on the north pole) to a named placement.  Returns (Q, tag)."""
    rng = _rng(seed, 43)
    k = len(P)
    c = ref.unit(P.mean(axis=0))

    def to(target_xyz, src=c):
        R = ref.rotation_taking(src, ref.unit(np.asarray(target_xyz, float)))
        return P @ R.T

    def ll(lon, lat):
        return ref.lonlat_to_xyz(lon, lat)

    if placement == "npole_inside":
        # pole strictly inside but off-centre: move the centre a fraction of the radius away
        rad = float(ref.angle(c, P[0]))
        off = rad * float(rng.uniform(0.0, 0.6))
        az = float(rng.uniform(0, 360))
        Q = to(ll(az, 90 - math.degrees(off)))
    elif placement == "spole_inside":
        rad = float(ref.angle(c, P[0]))
        off = rad * float(rng.uniform(0.0, 0.6))
        az = float(rng.uniform(0, 360))
        Q = to(ll(az, -90 + math.degrees(off)))
    elif placement in ("corner_npole", "corner_spole"):
        j = int(rng.integers(0, k))
        tgt = np.array([0, 0, 1.0 if placement == "corner_npole" else -1.0])
        R = ref.rotation_taking(P[j], tgt)
        spin = ref.rot_z(float(rng.uniform(0, 360)))
        Q = P @ R.T @ spin.T
        Q[j] = tgt
    elif placement in ("npole_inside_corner_lon0", "spole_inside_corner_lon180"):
        # pole strictly inside and one corner exactly on the meridian lon = 0 (or 180): ray-casting degeneracy
        rad = float(ref.angle(c, P[0]))
        off = rad * float(rng.uniform(0.0, 0.5))
        north = placement.startswith("npole")
        Q = to(ll(float(rng.uniform(0, 360)), (90 - math.degrees(off)) if north else (-90 + math.degrees(off))))
        j = int(rng.integers(0, k))
        lonj = math.degrees(math.atan2(Q[j, 1], Q[j, 0]))
        Q = Q @ ref.rot_z((0.0 if north else 180.0) - lonj).T
        Q[j, 1] = 0.0
    elif placement in ("npole_inside_symmetric_lon0", "spole_inside_symmetric_lon180", "npole_inside_symmetric_lon180", "spole_inside_symmetric_lon0"):
        # pole strictly inside; corners mirror-symmetric about the meridian through one corner, and the widest gap between corner
        # longitudes is the one OPPOSITE that corner (so the corner sits exactly at the mean longitude of the two corners bounding
        # the widest gap - a degenerate reference meridian for ray casting).  All corners at one colatitude: always convex.
        rad = float(ref.angle(c, P[0]))
        kk = k if k % 2 == 1 else k + 1
        h = (kk - 1) // 2
        amax = float(rng.uniform(95.0, 118.0 if h == 1 else 125.0))
        offs = np.sort(rng.uniform(0.25, 0.75, size=h - 1) * amax) if h > 1 else np.array([])
        offs = np.concatenate([offs, [amax]])
        x = np.sin(rad) * np.cos(np.deg2rad(offs))
        y = np.sin(rad) * np.sin(np.deg2rad(offs))
        z = np.full(h, math.cos(rad))
        ring = [(math.sin(rad), 0.0, math.cos(rad))] + [(x[i], y[i], z[i]) for i in range(h)] + [(x[i], -y[i], z[i]) for i in range(h - 1, -1, -1)]
        Q = np.array(ring)
        if placement.endswith("lon180"):
            Q = Q * np.array([-1.0, -1.0, 1.0])  # exact half turn about the polar axis
        if placement.startswith("spole"):
            Q = (Q * np.array([1.0, 1.0, -1.0]))[::-1]  # mirror to the south, keep counter-clockwise
        return Q / np.linalg.norm(Q, axis=1, keepdims=True)
    elif placement == "across_180":
        Q = to(ll(180.0 + float(rng.uniform(-0.3, 0.3)) * math.degrees(float(ref.angle(c, P[0]))), float(rng.uniform(-60, 60))))
    elif placement == "across_0":
        Q = to(ll(0.0 + float(rng.uniform(-0.3, 0.3)) * math.degrees(float(ref.angle(c, P[0]))), float(rng.uniform(-60, 60))))
    elif placement == "origin_inside":
        rad = math.degrees(float(ref.angle(c, P[0])))
        Q = to(ll(float(rng.uniform(-0.4, 0.4)) * rad, float(rng.uniform(-0.4, 0.4)) * rad))
    elif placement == "near_npole":
        rad = math.degrees(float(ref.angle(c, P[0])))
        Q = to(ll(float(rng.uniform(0, 360)), 90 - rad * float(rng.uniform(1.15, 1.8))))
    elif placement == "near_spole":
        rad = math.degrees(float(ref.angle(c, P[0])))
        Q = to(ll(float(rng.uniform(0, 360)), -90 + rad * float(rng.uniform(1.15, 1.8))))
    elif placement == "equator":
        Q = to(ll(float(rng.uniform(-180, 180)), float(rng.uniform(-3, 3))))
    else:  # generic
        Q = P @ ref.rotation_matrix(rng).T
    return ref.unit(Q)


FACE_PLACEMENTS = ["generic", "npole_inside", "spole_inside", "corner_npole", "corner_spole", "across_180", "across_0",
                   "origin_inside", "near_npole", "near_spole", "equator", "npole_inside_corner_lon0", "spole_inside_corner_lon180",
                   "npole_inside_symmetric_lon0", "spole_inside_symmetric_lon180", "npole_inside_symmetric_lon180", "spole_inside_symmetric_lon0"]
