"""Shard worker: python -m uxmon.worker C05 --tier quick --seed 0 --shard 0 --nshards 8 --out f.json"""

import argparse
import importlib
import json
import os
import sys
import time
import warnings


def main():
    ap = argparse.ArgumentParser()
    ap.add_argument("prop")
    ap.add_argument("--tier", default="quick")
    ap.add_argument("--seed", type=int, default=0)
    ap.add_argument("--shard", type=int, default=0)
    ap.add_argument("--nshards", type=int, default=1)
    ap.add_argument("--out", required=True)
    ap.add_argument("--replay", default=None)
    ap.add_argument("--mode", default="")
    a = ap.parse_args()

    warnings.filterwarnings("ignore")
    from . import core, cover

    if os.environ.get("UXMON_COVER", "1") == "1":
        cover.start()

    mod = importlib.import_module("uxmon.checks." + a.prop.lower())
    ctx = core.Ctx(a.prop, a.tier, a.seed, a.shard, a.nshards, replay=bool(a.replay))
    ctx.mode = a.mode
    try:
        if hasattr(mod, "setup"):
            mod.setup(ctx)
        if a.replay:
            rec = json.load(open(a.replay))
            cases = [rec["case"]]
        else:
            cases = (c for i, c in enumerate(mod.cases(a.tier, a.seed)) if i % a.nshards == a.shard)
        for case in cases:
            ctx.begin_case(case)
            try:
                mod.run_case(ctx, case)
            except BaseException as e:  # harness failure, not an observation
                if isinstance(e, KeyboardInterrupt):
                    raise
                ctx.harness_error("run_case", e)
        if hasattr(mod, "finish"):
            mod.finish(ctx)
    except BaseException as e:
        ctx.harness_error("worker", e)
    res = ctx.result()
    res["lines"] = cover.result()
    core.jdump(res, a.out)


if __name__ == "__main__":
    main()
