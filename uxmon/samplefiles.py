"""Independent decoders for the repository's sample mesh files (test/meshfiles).

Each decoder reads the raw variables with xarray (no CF decoding, no uxarray code) and returns a model mesh: unit vectors of
the corner positions and, per face, the list of its corners in file order.  Node numbering of the model is the file's where
the format has a node table and positional otherwise (SCRIP, GEOS-CS, polygons): `ux.faces_match` compares positions, never
indices, so the library is free to number (and merge) nodes as it likes.
"""

import json
import os

import numpy as np

from . import gen, ref

ROOT = None


def root():
    global ROOT
    if ROOT is None:
        import uxarray

        # the checkout under test carries the sample files next to the package
        ROOT = os.path.join(os.path.dirname(os.path.dirname(os.path.abspath(uxarray.__file__))), "test", "meshfiles")
    return ROOT


def _raw(path):
    import xarray as xr

    return xr.open_dataset(path, decode_cf=False, mask_and_scale=False, decode_times=False)


def _mesh(lon_deg, lat_deg, faces, name, closed=False):
    xyz = ref.lonlat_to_xyz(np.asarray(lon_deg, dtype=float), np.asarray(lat_deg, dtype=float))
    return gen.Mesh(xyz, faces, {"family": "sample_file", "file": name}, closed)


def _rows(conn, fill_values, start, n_node):
    faces = []
    for row in np.asarray(conn):
        f = []
        for v in row:
            if isinstance(v, (float, np.floating)) and np.isnan(v):
                continue
            iv = int(v)
            if any(iv == int(fv) for fv in fill_values if fv is not None and not (isinstance(fv, float) and np.isnan(fv))):
                continue
            iv -= start
            if iv < 0 or iv >= n_node:
                continue  # undeclared padding: out-of-range entries can only be padding
            f.append(iv)
        faces.append(f)
    return faces


def ugrid(path):
    ds = _raw(path)
    topo = [v for v in ds.variables if ds[v].attrs.get("cf_role") == "mesh_topology"]
    t = ds[topo[0]]
    nlon, nlat = t.attrs["node_coordinates"].split()[:2]
    lon, lat = np.asarray(ds[nlon].values, dtype=float), np.asarray(ds[nlat].values, dtype=float)
    # either variable may be the longitude: decide by standard_name / units
    def is_lat(v):
        a = ds[v].attrs
        return "lat" in str(a.get("standard_name", "")).lower() or "north" in str(a.get("units", "")).lower()

    if is_lat(nlon) and not is_lat(nlat):
        lon, lat = lat, lon
    if "rad" in str(ds[nlon].attrs.get("units", "")).lower():
        lon, lat = np.rad2deg(lon), np.rad2deg(lat)
    c = ds[t.attrs["face_node_connectivity"]]
    conn = np.asarray(c.values)
    fdim = t.attrs.get("face_dimension")
    if fdim is not None and c.dims[0] != fdim and c.dims[1] == fdim:
        conn = conn.T
    elif fdim is None and conn.shape[0] < conn.shape[1] and conn.shape[0] <= 8:
        conn = conn.T
    start = int(c.attrs.get("start_index", 0))
    fills = [c.attrs.get("_FillValue"), c.attrs.get("missing_value")]
    return _mesh(lon, lat, _rows(conn, fills, start, len(lon)), os.path.basename(path))


def mpas(path, dual=False):
    ds = _raw(path)
    if not dual:
        lon, lat = np.rad2deg(ds["lonVertex"].values), np.rad2deg(ds["latVertex"].values)
        voc, n = np.asarray(ds["verticesOnCell"].values), np.asarray(ds["nEdgesOnCell"].values)
        faces = [[int(v) - 1 for v in voc[i, : int(n[i])]] for i in range(len(n))]
    else:
        lon, lat = np.rad2deg(ds["lonCell"].values), np.rad2deg(ds["latCell"].values)
        cov = np.asarray(ds["cellsOnVertex"].values)
        faces = [[int(v) - 1 for v in row if int(v) > 0] for row in cov]
    return _mesh(lon, lat, faces, os.path.basename(path) + (":dual" if dual else ""), closed=True)


def scrip(path):
    ds = _raw(path)
    clon, clat = np.asarray(ds["grid_corner_lon"].values, dtype=float), np.asarray(ds["grid_corner_lat"].values, dtype=float)
    if "rad" in str(ds["grid_corner_lon"].attrs.get("units", "degrees")).lower():
        clon, clat = np.rad2deg(clon), np.rad2deg(clat)
    lon, lat, faces = [], [], []
    for i in range(clon.shape[0]):
        P = ref.lonlat_to_xyz(clon[i], clat[i])
        keep = []
        for j in range(len(P)):
            # cells with fewer corners repeat a corner: a repeated position is one corner
            if not any(ref.angle(P[j], P[k]) < 1e-12 for k in keep):
                keep.append(j)
        faces.append(list(range(len(lon), len(lon) + len(keep))))
        lon.extend(clon[i][keep])
        lat.extend(clat[i][keep])
    return _mesh(lon, lat, faces, os.path.basename(path))


def exodus(path):
    ds = _raw(path)
    if "coord" in ds:
        X = np.asarray(ds["coord"].values, dtype=float)
        x, y, z = X[0], X[1], X[2]
    else:
        x, y, z = (np.asarray(ds[k].values, dtype=float) for k in ("coordx", "coordy", "coordz"))
    xyz = ref.unit(np.stack([x, y, z], axis=1))
    faces = []
    b = 1
    while "connect%d" % b in ds:
        c = np.asarray(ds["connect%d" % b].values)
        for row in c:
            faces.append([int(v) - 1 for v in row if int(v) > 0])
        b += 1
    return gen.Mesh(xyz, faces, {"family": "sample_file", "file": os.path.basename(path)}, False)


def esmf(path):
    ds = _raw(path)
    nc = np.asarray(ds["nodeCoords"].values, dtype=float)
    lon, lat = nc[:, 0], nc[:, 1]
    if "rad" in str(ds["nodeCoords"].attrs.get("units", "degrees")).lower():
        lon, lat = np.rad2deg(lon), np.rad2deg(lat)
    ec = ds["elementConn"]
    start = int(ec.attrs.get("start_index", 1))
    n = np.asarray(ds["numElementConn"].values).astype(int)
    conn = np.asarray(ec.values)
    faces = [[int(v) - start for v in conn[i, : n[i]]] for i in range(len(n))]
    return _mesh(lon, lat, faces, os.path.basename(path))


def geos_cs(path):
    ds = _raw(path)
    clon, clat = np.asarray(ds["corner_lons"].values, dtype=float), np.asarray(ds["corner_lats"].values, dtype=float)
    nf, ny, nx = clon.shape
    lon, lat, faces = [], [], []
    for t in range(nf):
        for j in range(ny - 1):
            for i in range(nx - 1):
                idx = [(j, i), (j, i + 1), (j + 1, i + 1), (j + 1, i)]
                faces.append(list(range(len(lon), len(lon) + 4)))
                lon.extend(clon[t][a] for a in idx)
                lat.extend(clat[t][a] for a in idx)
    return _mesh(lon, lat, faces, os.path.basename(path))


def _ring_faces(rings, name):
    lon, lat, faces = [], [], []
    for R in rings:
        R = np.asarray(R, dtype=float)[:, :2]
        if len(R) >= 2 and np.allclose(R[0], R[-1]):
            R = R[:-1]  # closed ring: the repeated first point is not a corner
        faces.append(list(range(len(lon), len(lon) + len(R))))
        lon.extend(R[:, 0])
        lat.extend(R[:, 1])
    return _mesh(lon, lat, faces, name)


def geojson(path):
    d = json.load(open(path))
    rings = []
    for feat in d["features"]:
        g = feat["geometry"]
        if g["type"] == "Polygon":
            rings.append(g["coordinates"][0])
        elif g["type"] == "MultiPolygon":
            for poly in g["coordinates"]:
                rings.append(poly[0])
    return _ring_faces(rings, os.path.basename(path))


def shapefile(path):
    """ESRI shapefile, polygons only: parsed from the binary layout (no geopandas)."""
    import struct

    b = open(path, "rb").read()
    pos, rings = 100, []
    while pos < len(b):
        _, clen = struct.unpack(">ii", b[pos : pos + 8])
        rec = b[pos + 8 : pos + 8 + 2 * clen]
        pos += 8 + 2 * clen
        stype = struct.unpack("<i", rec[:4])[0]
        if stype not in (5, 15, 25):
            continue
        nparts, npts = struct.unpack("<ii", rec[36:44])
        parts = list(struct.unpack("<%di" % nparts, rec[44 : 44 + 4 * nparts])) + [npts]
        pts = np.frombuffer(rec[44 + 4 * nparts : 44 + 4 * nparts + 16 * npts], dtype="<f8").reshape(npts, 2)
        for k in range(nparts):
            R = pts[parts[k] : parts[k + 1]]
            # outer rings are clockwise in a shapefile; holes (counter-clockwise) are not faces
            x, y = R[:-1, 0], R[:-1, 1]
            area2 = float(np.sum(x * np.roll(y, -1) - np.roll(x, -1) * y))
            if area2 < 0:
                rings.append(R)
    return _ring_faces(rings, os.path.basename(path))


FILES = [
    ("ugrid", "ugrid/outCSne30/outCSne30.ug", {}),
    ("ugrid", "ugrid/outRLL1deg/outRLL1deg.ug", {}),
    ("ugrid", "ugrid/ov_RLL10deg_CSne4/ov_RLL10deg_CSne4.ug", {}),
    ("ugrid", "ugrid/quad-hexagon/grid.nc", {}),
    ("ugrid", "ugrid/quad-hexagon/triangulated-grid.nc", {}),
    ("ugrid", "ugrid/geoflow-small/grid.nc", {}),
    ("ugrid", "ugrid/fesom/fesom.mesh.diag.nc", {}),
    ("mpas", "mpas/QU/mesh.QU.1920km.151026.nc", {}),
    ("mpas_dual", "mpas/QU/mesh.QU.1920km.151026.nc", {"use_dual": True}),
    ("scrip", "scrip/outCSne8/outCSne8.nc", {}),
    ("scrip", "ugrid/fesom/test_scrip_outfile.nc", {}),
    ("exodus", "exodus/outCSne8/outCSne8.g", {}),
    ("exodus", "exodus/mixed/mixed.exo", {}),
    ("esmf", "esmf/ne30/ne30pg3.grid.nc", {}),
    ("geos_cs", "geos-cs/c12/test-c12.native.nc4", {}),
    ("geojson", "geojson/sample_chicago_buildings.geojson", {}),
    ("shapefile", "shp/5poly/5poly.shp", {}),
    ("shapefile", "shp/multipoly/multipoly.shp", {}),
    # (ships a .prj naming NAD83: the library re-projects to WGS84, a datum shift of about one metre = 1.5e-7 rad)
    ("shapefile", "shp/cb_2018_us_nation_20m/cb_2018_us_nation_20m.shp", {"_tol": 1e-6}),
]

DECODERS = {"ugrid": ugrid, "mpas": mpas, "mpas_dual": lambda p: mpas(p, dual=True), "scrip": scrip, "exodus": exodus, "esmf": esmf, "geos_cs": geos_cs,
            "geojson": geojson, "shapefile": shapefile}


def decode(kind, rel):
    return DECODERS[kind](os.path.join(root(), rel))


# (geoflow-small/grid.nc covers the sphere but its own node table lists 2970 coincident node pairs: not closed as a complex)
CLOSED = {"ugrid/outCSne30/outCSne30.ug", "ugrid/outRLL1deg/outRLL1deg.ug", "mpas/QU/mesh.QU.1920km.151026.nc", "scrip/outCSne8/outCSne8.nc",
          "ugrid/fesom/test_scrip_outfile.nc", "exodus/outCSne8/outCSne8.g", "esmf/ne30/ne30pg3.grid.nc", "geos-cs/c12/test-c12.native.nc4"}
BIG = {"ugrid/outRLL1deg/outRLL1deg.ug", "esmf/ne30/ne30pg3.grid.nc"}


def netcdf_files(tier):
    """(kind, relative path, open kwargs) of the NetCDF sample files that exist; the two largest only in the thorough tier."""
    out = []
    for kind, rel, kw in FILES:
        if kind in ("geojson", "shapefile"):
            continue
        p = os.path.join(root(), rel)
        if not os.path.exists(p) or os.path.getsize(p) == 0:
            continue
        if rel in BIG and tier != "thorough":
            continue
        out.append((kind, rel, kw))
    return out


def open_with_model(rel, kw):
    """The grid uxarray makes of a sample file and a model mesh in THAT grid's numbering (faces and positions as the grid reports
    them - C01 decides that they are the file's)."""
    import warnings

    from . import ux

    with warnings.catch_warnings():
        warnings.simplefilter("ignore")
        g = ux.ux().open_grid(os.path.join(root(), rel), **{k: v for k, v in kw.items() if not k.startswith("_")})
        m = gen.Mesh(ux.grid_node_xyz(g), ux.rows(g.face_node_connectivity.values), {"family": "sample_file", "file": rel, "kw": kw}, rel in CLOSED)
    return g, m


def supplied_tables(kind, rel):
    """Connectivity tables the file itself ships (they are carried, not derived)."""
    if kind in ("mpas", "mpas_dual"):
        return {"face_edge_connectivity", "edge_node_connectivity", "edge_face_connectivity", "face_face_connectivity", "node_face_connectivity"}
    if kind == "ugrid":
        ds = _raw(os.path.join(root(), rel))
        t = ds[[v for v in ds.variables if ds[v].attrs.get("cf_role") == "mesh_topology"][0]]
        return {k for k in ("face_edge_connectivity", "edge_node_connectivity", "edge_face_connectivity", "face_face_connectivity", "node_face_connectivity") if k in t.attrs}
    return set()


# fesom.mesh.diag.nc ships a face_links table that is not the adjacency of its own faces under either index base
# (face 2315: file says {2394, 2311}; its neighbours by shared edges are {2310, 2394}) and a face_edges table whose rows name
# edges elsewhere in the mesh (face 21: edge 4235 joins nodes 1569-1570, the face's corners are 10, 12, 28): defective source
# tables, carried as they are
INCONSISTENT_SOURCE_TABLES = {"ugrid/fesom/fesom.mesh.diag.nc"}
