"""Runner: fan shards out as subprocesses, merge, classify against known findings, write
evidence, print verdict lines, return the exit code.

exit 0  held on everything explored (KNOWN-FINDING lines for re-observed open findings)
exit 1  at least one violation not matched by an open known finding (VIOLATION lines)
exit 2  inconclusive (deciding monitor never evaluated / shard died / too few cases)
"""

import argparse
import importlib
import json
import os
import subprocess
import sys
import time
from concurrent.futures import ThreadPoolExecutor

from . import core, cover, env


def load_findings():
    p = os.path.join(env.ROOT, "known_findings.json")
    if not os.path.exists(p):
        return []
    return json.load(open(p)).get("findings", [])


def _match_value(pat, val):
    if isinstance(pat, dict):
        if "in" in pat:
            return val in pat["in"]
        if "not" in pat:
            return val != pat["not"]
        if "prefix" in pat:
            return isinstance(val, str) and val.startswith(pat["prefix"])
        if "contains" in pat:
            return isinstance(val, str) and pat["contains"] in val
        return False
    return pat == val


def match_finding(v, findings):
    for f in findings:
        if f.get("status") != "open":
            continue
        if f["property"] != v["property"]:
            continue
        cl = f.get("clause")
        if cl is not None and not _match_value(cl, v["clause"]):
            continue
        where = f.get("where", {})
        sig = v.get("sig", {})
        if all(k in sig and _match_value(p, sig[k]) for k, p in where.items()):
            return f
    return None


def run_worker(prop, tier, seed, shard, nshards, mode, timeout, replay=None):
    out = os.path.join(env.WORK, "%s_%s_%d_%s_%d_%d.json" % (prop, tier, seed, mode["name"], shard, os.getpid()))
    cmd = [
        env.PY, "-m", "uxmon.worker", prop, "--tier", tier, "--seed", str(seed),
        "--shard", str(shard), "--nshards", str(nshards), "--out", out, "--mode", mode["name"],
    ]
    if replay:
        cmd += ["--replay", replay]
    e = env.child_env(mode.get("env"))
    log = out + ".log"
    t0 = time.time()
    try:
        with open(log, "w") as lf:
            r = subprocess.run(cmd, env=e, cwd=env.ROOT, stdout=lf, stderr=subprocess.STDOUT, timeout=timeout)
        rc = r.returncode
    except subprocess.TimeoutExpired:
        rc = "timeout"
    res = None
    if os.path.exists(out):
        try:
            res = json.load(open(out))
        except Exception:
            res = None
        os.remove(out)
    tail = ""
    try:
        tail = open(log).read()[-1500:]
        os.remove(log)
    except OSError:
        pass
    return {"shard": shard, "mode": mode["name"], "rc": rc, "res": res, "wall": time.time() - t0, "log_tail": tail}


def main(argv=None):
    ap = argparse.ArgumentParser(prog="check")
    ap.add_argument("prop")
    ap.add_argument("--tier", default=os.environ.get("VERIF_TIER", "quick"), choices=["quick", "thorough"])
    ap.add_argument("--seed", type=int, default=int(os.environ.get("VERIF_SEED", "0") or 0))
    ap.add_argument("--replay", default=None)
    ap.add_argument("--shards", type=int, default=None)
    ap.add_argument("--no-evidence", action="store_true")
    a = ap.parse_args(argv)
    prop = a.prop.upper()
    t0 = time.time()

    env.ensure_dirs()
    if not env.ensure_deps():
        print("INCONCLUSIVE property=%s reason=dependency-install-failed" % prop)
        return 2
    sys.path.insert(0, env.DEPS)

    mod = importlib.import_module("uxmon.checks." + prop.lower())
    tier = a.tier
    nshards = a.shards or getattr(mod, "SHARDS", {"quick": 4, "thorough": 16})[tier]
    timeout = getattr(mod, "TIMEOUT", {"quick": 1500, "thorough": 4 * 3600})[tier]
    modes = getattr(mod, "MODES", {}).get(tier) or [{"name": "jit", "env": {}}]
    if a.replay:
        nshards = 1
        modes = modes[:1]

    jobs = [(m, s) for m in modes for s in range(nshards)]
    with ThreadPoolExecutor(max_workers=min(16, len(jobs))) as ex:
        futs = [ex.submit(run_worker, prop, tier, a.seed, s, nshards, m, timeout, a.replay) for m, s in jobs]
        outs = [f.result() for f in futs]

    # ---------------------------------------------------------------- merge
    inconclusive = []
    clause_evals, observed, notes = {}, {}, {}
    violations, samples, nontrivial = [], [], set()
    viol_count = cases_run = 0
    viol_sigs = {}
    libs = set()
    lines_hit = {}
    for o in outs:
        r = o["res"]
        if r is None:
            inconclusive.append("shard %s/%s produced no result (rc=%s) %s" % (o["mode"], o["shard"], o["rc"], o["log_tail"][-300:].replace("\n", " | ")))
            continue
        if o["rc"] == "timeout":
            inconclusive.append("shard %s/%s hit the wall-clock watchdog" % (o["mode"], o["shard"]))
        if r["n_errors"]:
            inconclusive.append("harness errors in shard %s/%s: %s" % (o["mode"], o["shard"], r["errors"][0]["exc"] + " :: " + r["errors"][0]["tb"][-400:].replace("\n", " | ")))
        libs.add(os.path.dirname(r.get("uxarray_file") or "?"))
        for fn, ls in (r.get("lines") or {}).items():
            lines_hit.setdefault(fn, set()).update(ls)
        cases_run += r["cases_run"]
        viol_count += r["viol_count"]
        for k, v in r["clause_evals"].items():
            clause_evals[k] = clause_evals.get(k, 0) + v
        for k, v in r["observed"].items():
            observed[k] = observed.get(k, 0) + v
        for k, v in r["viol_sigs"].items():
            viol_sigs[k] = viol_sigs.get(k, 0) + v
        for k, v in r.get("notes", {}).items():
            notes.setdefault(k, set()).update(map(lambda x: json.dumps(x) if isinstance(x, (list, dict)) else x, v))
        for v in r["violations"]:
            v["mode"] = o["mode"]
            violations.append(v)
        samples.extend(r["samples"][:2])
        nontrivial.update(r["nontrivial"])

    # cross-mode comparison hook (e.g. JIT on vs JIT off): the check module sees every shard's blobs grouped by mode
    if hasattr(mod, "cross_modes") and not a.replay:
        by_mode = {}
        for o in outs:
            if o["res"] is not None:
                by_mode.setdefault(o["mode"], []).append(o["res"].get("blobs", {}))
        try:
            n_eval, extra = mod.cross_modes(by_mode)
            clause_evals["cross_mode"] = clause_evals.get("cross_mode", 0) + n_eval
            for v in extra:
                v.setdefault("property", prop)
                v.setdefault("mode", "cross")
                violations.append(v)
                viol_count += 1
                key = v["clause"] + "|" + json.dumps(v["sig"], sort_keys=True, default=core._jd)
                viol_sigs[key] = viol_sigs.get(key, 0) + 1
        except Exception as e:  # a failing hook must not pass silently
            inconclusive.append("cross_modes hook failed: %r" % (e,))

    evaluations = sum(clause_evals.values())
    min_eval = getattr(mod, "MIN_EVAL", {}).get(tier, {}) if not a.replay else {}
    for clause, n in min_eval.items():
        if clause_evals.get(clause, 0) < n:
            inconclusive.append("clause %s evaluated %d times (< %d)" % (clause, clause_evals.get(clause, 0), n))
    if evaluations == 0:
        inconclusive.append("no oracle evaluation at all")
    if not a.replay and len(nontrivial) < 2:
        inconclusive.append("fewer than 2 distinct non-trivial cases")

    # ---------------------------------------------------------------- classify
    findings = load_findings()
    matched = {}
    fresh = []
    for v in violations:
        f = match_finding(v, findings)
        if f is not None:
            matched.setdefault(f["id"], {"finding": f, "n": 0, "example": v})["n"] += 1
        else:
            fresh.append(v)

    lines = []
    for fid, m in sorted(matched.items()):
        lines.append("KNOWN-FINDING: property=%s %s [%s; %d stored witnesses]" % (prop, m["finding"]["what"], fid, m["n"]))
    seen = set()
    replay_paths = []
    os.makedirs(os.path.join(env.REPLAYS, prop), exist_ok=True)
    for v in fresh:
        key = v["clause"] + "|" + json.dumps(v["sig"], sort_keys=True, default=core._jd)
        if key in seen:
            continue
        seen.add(key)
        path = os.path.join(env.REPLAYS, prop, core.jhash(v) + ".json")
        core.jdump(v, path)
        replay_paths.append(path)
        if len(seen) <= 40:
            lines.append("VIOLATION property=%s replay=%s clause=%s sig=%s" % (prop, path, v["clause"], json.dumps(v["sig"], sort_keys=True, default=core._jd)))
    if len(seen) > 40:
        lines.append("... %d further distinct violation signatures (see evidence)" % (len(seen) - 40))

    if fresh:
        verdict, rc = "violated", 1
    elif inconclusive:
        verdict, rc = "inconclusive", 2
        for r in inconclusive[:10]:
            lines.append("INCONCLUSIVE property=%s reason=%s" % (prop, r))
    else:
        verdict, rc = "held", 0

    wall = time.time() - t0
    summary = "%s %s tier=%s seed=%d cases=%d evaluations=%d distinct_nontrivial=%d violations=%d (fresh signatures=%d, known=%d) wall=%.1fs lib=%s" % (
        prop, verdict.upper(), tier, a.seed, cases_run, evaluations, len(nontrivial), viol_count, len(seen), len(matched), wall, ",".join(sorted(libs)))
    for l in lines:
        print(l)
    print(summary)

    if not a.no_evidence and not a.replay:
        ev = {
            "property_id": prop,
            "tier": tier,
            "seed": a.seed,
            "level": "exploration",
            "coverage": {
                "evaluations": evaluations,
                "distinct_nontrivial": len(nontrivial),
                "rule": getattr(mod, "RULE", ""),
                "samples": samples[:6] or [None],
                "exhaustive": bool(getattr(mod, "EXHAUSTIVE", {}).get(tier, False)),
                "cases_run": cases_run,
                "clause_evaluations": clause_evals,
                "observed": observed,
                "notes": {k: sorted(v)[:300] for k, v in notes.items()},
                "note_sizes": {k: len(v) for k, v in notes.items()},
                "modes": [m["name"] for m in modes],
                "library_under_test": sorted(libs),
                "anchor_lines": cover.summarize(prop, lines_hit, repo=os.path.dirname(sorted(libs)[0]) if libs and sorted(libs)[0] != "?" else None),
                "library_lines_executed": {fn: len(ls) for fn, ls in sorted(lines_hit.items())},
                "shards": nshards,
                "verdict": verdict,
                "violation_signatures": {k: viol_sigs[k] for k in sorted(viol_sigs)[:200]},
                "known_findings_matched": {fid: m["n"] for fid, m in matched.items()},
                "fresh_violation_examples": [
                    {"clause": v["clause"], "sig": v["sig"], "detail": v.get("detail")} for v in fresh[:5]
                ],
                "inconclusive_reasons": inconclusive[:10],
            },
            "assumptions": getattr(mod, "ASSUMPTIONS", []),
            "wall_s": round(wall, 2),
            "violations": len(seen),
        }
        core.jdump(ev, os.path.join(env.EVIDENCE, prop + ".json"))
    return rc


if __name__ == "__main__":
    sys.exit(main())
