#!/venv/bin/python
"""Prints the markdown tables of DESIGN.md sections 12 (findings) and 13 (seeded changes) from known_findings.json and seeded/*/meta.json."""
import glob, json, os
ROOT = os.path.dirname(os.path.dirname(os.path.abspath(__file__)))
kf = json.load(open(os.path.join(ROOT, "known_findings.json")))["findings"]
print("### Repaired defects (`fix:` commits in /repo)\n")
print("| property | commit | what failed |")
print("|---|---|---|")
for f in kf:
    if f["status"] == "fixed":
        what = f["what"].split(" ", 3)[3] if f["what"].startswith("fixed:") else f["what"]
        print("| %s | %s | %s |" % (f["property"], f["commit"], what.replace("|", "/")))
print("\n### Open findings (recorded, not repaired)\n")
print("| property | id | matched by (clause, mechanism features) | what fails and why it is not repaired |")
print("|---|---|---|---|")
for f in kf:
    if f["status"] == "open":
        print("| %s | %s | %s, %s | %s |" % (f["property"], f["id"], f.get("clause"), json.dumps(f.get("where")), f["what"].replace("|", "/")))
print("\n### Seeded changes\n")
print("| seed | breaks | caught by (final verification against the final /repo HEAD and checks) | needs to manifest |")
print("|---|---|---|---|")
for d in sorted(glob.glob(os.path.join(ROOT, "seeded", "*"))):
    mp = os.path.join(d, "meta.json")
    if not os.path.exists(mp):
        continue
    m = json.load(open(mp))
    fin = m.get("final_verification") or {}
    caught = fin.get("caught_by") if fin.get("confirmed") else None
    col = ", ".join(caught) if caught else (("superseded by a repair (was caught by %s)" % ", ".join(m["caught_by"]) if m.get("caught_by") else "superseded by the repair of the defect its trigger exposed") if m.get("superseded") else ", ".join(m.get("caught_by") or ["-"]))
    print("| %s | %s | %s | %s |" % (m["name"], m.get("breaks_property", m["name"][:3]), col, (m.get("needs_to_manifest") or "").replace("|", "/")[:260]))
