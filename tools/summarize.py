#!/venv/bin/python
"""Summarise the violation signatures in an evidence file: group by clause + chosen keys."""
import json, sys, collections
ev = json.load(open(sys.argv[1]))
keys = sys.argv[2:] or ["format"]
groups = collections.Counter()
for k, n in ev["coverage"]["violation_signatures"].items():
    clause, sig = k.split("|", 1)
    sig = json.loads(sig)
    groups[(clause,) + tuple(str(sig.get(x)) for x in keys)] += n
for g, n in sorted(groups.items()):
    print(n, g)
