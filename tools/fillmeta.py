#!/venv/bin/python
"""Fills 'needs_to_manifest' and 'change' in seeded/*/meta.json from the seed author's notes.md where they are missing."""
import glob, json, os, re
ROOT = os.path.dirname(os.path.dirname(os.path.abspath(__file__)))
for d in sorted(glob.glob(os.path.join(ROOT, "seeded", "*"))):
    mp, np_ = os.path.join(d, "meta.json"), os.path.join(d, "notes.md")
    if not (os.path.exists(mp) and os.path.exists(np_)):
        continue
    m = json.load(open(mp))
    notes = open(np_).read()
    flat = " ".join(notes.split())
    changed = False
    if not m.get("needs_to_manifest"):
        hit = re.search(r"(?i)(\*\*)?(needed to manifest|needs to manifest|needs|needed|trigger)[^:]{0,40}:(\*\*)?\s*(.{20,520}?)(?= - \*\*| \*\*[A-Z]|- Ran|Ran:| Demo| - Demo| - Test| Tests?:| Suite| Unaffected| Not affected|$)", flat)
        m["needs_to_manifest"] = (hit.group(4) if hit else flat[:400]).strip()
        changed = True
    if not m.get("change"):
        m["change"] = flat[:300]
        changed = True
    if changed:
        json.dump(m, open(mp, "w"), indent=1)
        print(m["name"], "->", m["needs_to_manifest"][:110])
