#!/venv/bin/python
"""Replaces the generated tables of DESIGN.md (sections 12 and 13: repaired defects, open findings, seeded changes) with the output of tools/mktables.py."""
import os, re, subprocess
ROOT = os.path.dirname(os.path.dirname(os.path.abspath(__file__)))
out = subprocess.run([os.path.join(ROOT, "tools", "mktables.py")], capture_output=True, text=True).stdout
blocks = {}
cur = None
for line in out.splitlines():
    if line.startswith("### "):
        cur = line
        blocks[cur] = []
    elif cur:
        blocks[cur].append(line)
p = os.path.join(ROOT, "DESIGN.md")
s = open(p).read()
for head, lines in blocks.items():
    i = s.index(head)
    j = s.find("\n## ", i)
    k = s.find("\n### ", i + 4)
    end = min(x for x in (j, k, len(s)) if x > 0)
    s = s[:i] + head + "\n" + "\n".join(lines).rstrip() + "\n" + s[end:]
open(p, "w").write(s)
print("updated", list(blocks))
