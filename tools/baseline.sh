#!/bin/sh
# runs the repository's own suite with the guard off and compares with /root/.vp/BASELINE.json stable_pass
unset UXMON
OUT=${1:-/tmp/uxmon_baseline.xml}
cd /repo && /venv/bin/python -m pytest -ra -q -p no:cacheprovider --timeout=900 --continue-on-collection-errors --junitxml=$OUT >/tmp/uxmon_baseline.log 2>&1
/venv/bin/python - "$OUT" <<'PY'
import json,sys,xml.etree.ElementTree as ET
base=set(json.load(open('/root/.vp/BASELINE.json'))['stable_pass'])
ok=set()
for tc in ET.parse(sys.argv[1]).getroot().iter('testcase'):
    if not any(c.tag in('failure','error','skipped') for c in tc):
        ok.add(tc.get('classname')+'::'+tc.get('name'))
missing=sorted(base-ok)
print('baseline pass: %d/%d ; newly passing: %d'%(len(base&ok),len(base),len(ok-base)))
for m in missing: print('  MISSING',m)
sys.exit(1 if missing else 0)
PY
