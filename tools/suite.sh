#!/bin/sh
# usage: tools/suite.sh <checkout-dir> ; runs the repository's own suite in that checkout (guard off) and lists baseline tests that no longer pass
D=${1:-/repo}; TAG=$(echo "$D" | tr '/' '_')
unset UXMON
cd "$D" && PYTHONPATH="$D" NUMBA_CACHE_DIR=/tmp/nbc$TAG /venv/bin/python -m pytest -q -p no:cacheprovider --timeout=900 --continue-on-collection-errors --junitxml=/tmp/junit$TAG.xml >/tmp/suite$TAG.log 2>&1
/venv/bin/python - /tmp/junit$TAG.xml <<'PY'
import json,sys,xml.etree.ElementTree as ET
base=set(json.load(open('/root/.vp/BASELINE.json'))['stable_pass']); ok=set()
for tc in ET.parse(sys.argv[1]).getroot().iter('testcase'):
    if not any(c.tag in('failure','error','skipped') for c in tc): ok.add(tc.get('classname')+'::'+tc.get('name'))
print('baseline pass: %d/%d; missing: %s; newly passing: %s'%(len(base&ok),len(base),sorted(base-ok),sorted(ok-base)))
sys.exit(1 if base-ok else 0)
PY
rc=$?
rm -rf /tmp/nbc$TAG; (cd "$D" && git status --short | grep '^??' | awk '{print $2}' | xargs -r rm -rf)
exit $rc
