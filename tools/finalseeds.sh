#!/bin/sh
# usage: tools/finalseeds.sh [PAR]  - re-verifies every kept seed (/verif/seeded/*) against /repo HEAD with the current checks
# (suite included), PAR at a time; records meta.final_verification; prints one line per seed.
cd "$(dirname "$0")/.."
PAR=${1:-3}
ls seeded | xargs -P $PAR -I{} sh -c 'tools/seedtest.py $PWD/seeded/{} {} --final > /tmp/fs_{}.json 2>&1'
for n in $(ls seeded); do /venv/bin/python -c "
import json
m=json.load(open('seeded/$n/meta.json')); f=m.get('final_verification',{})
print('$n', 'applies',f.get('applies'),'confirmed',f.get('confirmed'),'caught_by',f.get('caught_by'), (f.get('baseline_suite_with_change') or '')[:40])
"; done
