#!/venv/bin/python
"""Regenerates MANIFEST.json from the check modules present (uxmon/checks/cNN.py) and properties.jsonl."""
import importlib, json, os, sys
ROOT = os.path.dirname(os.path.dirname(os.path.abspath(__file__)))
sys.path.insert(0, ROOT)
props = [json.loads(l) for l in open(os.path.join(ROOT, "properties.jsonl"))]
checks, na = [], []
for p in props:
    pid = p["id"]
    path = os.path.join(ROOT, "uxmon", "checks", pid.lower() + ".py")
    if not os.path.exists(path):
        na.append({"property_id": pid, "reason": "check not built yet in this round (runtime monitoring applies; see DESIGN.md section 4)"})
        continue
    mod = importlib.import_module("uxmon.checks." + pid.lower())
    if getattr(mod, "NOT_CLAIMED", None):
        na.append({"property_id": pid, "reason": mod.NOT_CLAIMED})
        continue
    checks.append({
        "property_id": pid,
        "quick_cmd": "./check %s --tier quick" % pid,
        "thorough_cmd": "./check %s --tier thorough" % pid,
        "evidence_file": "evidence/%s.json" % pid,
        "replay_cmd_template": "./check %s --replay {path}" % pid,
        "engine": "uxmon",
        "level_claimed": {
            "category": "exploration",
            "text": getattr(mod, "LEVEL_TEXT", "Runtime monitoring: the real library is driven through its public API on seeded, hostile workloads while an independent reference model decides every observed result; held on the executions observed, nothing is claimed about inputs not driven."),
            "design_ref": "DESIGN.md section 4, %s" % pid,
        },
        "level_note": "; ".join(getattr(mod, "ASSUMPTIONS", [])) or "reference model in uxmon/ref.py; numpy/scipy/xarray trusted",
        "technique": getattr(mod, "TECHNIQUE", "runtime monitoring: reference-model oracle on public-API observations"),
    })
man = {
    "version": 1,
    "setup_cmd": "./setup.sh",
    "hooks": {
        "guard": "UXMON",
        "enable": "UXMON=1 is exported by ./check to its worker processes; instrumentation is applied from the harness at import time (monkeypatching / icontract / sys.monitoring), no source file under /repo carries a hook",
        "baseline_off_cmd": "cd /repo && /venv/bin/python -m pytest -ra -q -p no:cacheprovider --timeout=900 --continue-on-collection-errors",
        "source_commits": [],
        "add_only": True,
    },
    "engines": [{"name": "uxmon", "path": "uxmon/", "serves_properties": [c["property_id"] for c in checks],
                 "kind_free_text": "sharded runtime-monitoring harness: seeded workload generators, reference-model oracles, trace checkers, known-findings classifier, evidence writer"}],
    "checks": checks,
    "not_applicable": na,
    "notes": "All checks run offline against /repo's working tree (editable install). VERIF_SEED / VERIF_TIER honoured. Exit 2 = inconclusive (never on the unchanged tree).",
}
json.dump(man, open(os.path.join(ROOT, "MANIFEST.json"), "w"), indent=1)
print("claimed:", [c["property_id"] for c in checks], "not claimed:", [n["property_id"] for n in na])
