#!/bin/sh
# usage: tools/runall.sh [tier] [seed] [ids...]   - runs checks sequentially, prints verdict lines
TIER=${1:-quick}; SEED=${2:-0}; shift 2 2>/dev/null
cd "$(dirname "$0")/.."
IDS="$@"
[ -z "$IDS" ] && IDS=$(/venv/bin/python -c "import json;print(' '.join(c['property_id'] for c in json.load(open('MANIFEST.json'))['checks']))")
for id in $IDS; do
  ./check $id --tier $TIER --seed $SEED > /tmp/uxmon_run_$id.log 2>&1; rc=$?
  echo "rc=$rc $(tail -1 /tmp/uxmon_run_$id.log)"
  grep -E "^(VIOLATION|KNOWN-FINDING|INCONCLUSIVE)" /tmp/uxmon_run_$id.log | head -8
done
