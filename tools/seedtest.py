#!/venv/bin/python
"""Confirm a seeded property-breaking change and run the checks against it.

usage: tools/seedtest.py <seed-dir> <name> [--checks C05,C08] [--tier quick] [--skip-suite] [--keep]
  <seed-dir> holds patch.diff, demo.py (+ notes.md).  Everything runs in a scratch worktree of /repo's HEAD
  under /tmp (removed afterwards); /repo itself is never touched.  Result: /verif/seeded/<name>/ (patch.diff,
  demo.py, notes.md, meta.json) when the change is confirmed (applies, demo passes without / fails with it,
  baseline suite still passes)."""
import argparse, json, os, shutil, subprocess, sys, time

ROOT = os.path.dirname(os.path.dirname(os.path.abspath(__file__)))


def sh(cmd, **kw):
    return subprocess.run(cmd, shell=True, stdout=subprocess.PIPE, stderr=subprocess.STDOUT, text=True, **kw)


def main():
    ap = argparse.ArgumentParser()
    ap.add_argument("seed_dir"); ap.add_argument("name")
    ap.add_argument("--checks", default=None); ap.add_argument("--tier", default="quick")
    ap.add_argument("--skip-suite", action="store_true"); ap.add_argument("--seed", default="0"); ap.add_argument("--final", action="store_true")
    a = ap.parse_args()
    prop = a.name[:3]
    checks = a.checks.split(",") if a.checks else [prop]
    wt = "/tmp/wtv_%s" % a.name
    nbc = "/tmp/nbcv_%s" % a.name
    sh("git -C /repo worktree remove --force %s" % wt)
    r = sh("git -C /repo worktree add -q --detach %s HEAD" % wt)
    assert r.returncode == 0, r.stdout
    out = {"name": a.name, "property": prop, "repo_head": sh("git -C /repo rev-parse --short HEAD").stdout.strip()}
    env = "cd %s && PYTHONPATH=%s NUMBA_CACHE_DIR=%s MPLBACKEND=Agg" % (wt, wt, nbc)
    patch = os.path.join(a.seed_dir, "patch.diff"); demo = os.path.join(a.seed_dir, "demo.py")
    try:
        r = sh("git -C %s apply --check %s" % (wt, patch))
        out["applies"] = r.returncode == 0
        if not out["applies"]:
            out["apply_msg"] = r.stdout[-500:]
            if a.final:
                meta_p = os.path.join(ROOT, "seeded", a.name, "meta.json")
                if os.path.exists(meta_p):
                    meta = json.load(open(meta_p))
                    meta["final_verification"] = {"repo_head": out["repo_head"], "applies": False, "note": "patch no longer applies to the repaired tree"}
                    json.dump(meta, open(meta_p, "w"), indent=1)
            print(json.dumps(out)); return 1
        r = sh("%s timeout 600 /venv/bin/python %s" % (env, demo))
        out["demo_without"] = r.returncode; out["demo_without_tail"] = r.stdout[-300:]
        sh("git -C %s apply %s" % (wt, patch))
        r = sh("%s timeout 600 /venv/bin/python %s" % (env, demo))
        out["demo_with"] = r.returncode; out["demo_with_tail"] = r.stdout[-400:]
        if not a.skip_suite:
            sh("rm -rf %s" % nbc)
            r = sh("%s/tools/suite.sh %s" % (ROOT, wt))
            out["suite_ok"] = r.returncode == 0; out["suite"] = r.stdout.strip().splitlines()[-1][:300]
            sh("git -C %s checkout -- . ; git -C %s apply %s" % (wt, wt, patch))
        out["checks"] = {}
        for c in checks:
            t0 = time.time()
            r = sh("cd %s && PYTHONPATH=%s ./check %s --tier %s --seed %s --no-evidence" % (ROOT, wt, c, a.tier, a.seed))
            lines = r.stdout.strip().splitlines()
            viol = [l for l in lines if l.startswith("VIOLATION")]
            out["checks"][c] = {"rc": r.returncode, "n_violation_lines": len(viol), "first": [v[:400] for v in viol[:3]], "summary": lines[-1][:300] if lines else "", "wall": round(time.time() - t0, 1)}
        out["confirmed"] = bool(out["demo_without"] == 0 and out["demo_with"] not in (0, 124) and out.get("suite_ok", True))
        out["caught_by"] = [c for c, v in out["checks"].items() if v["rc"] == 1]
        if out["confirmed"]:
            dst = os.path.join(ROOT, "seeded", a.name)
            os.makedirs(dst, exist_ok=True)
            for f in ("patch.diff", "demo.py", "notes.md"):
                if os.path.exists(os.path.join(a.seed_dir, f)) and os.path.abspath(os.path.join(a.seed_dir, f)) != os.path.abspath(os.path.join(dst, f)):
                    shutil.copy(os.path.join(a.seed_dir, f), os.path.join(dst, f))
            meta_p = os.path.join(dst, "meta.json")
            meta = json.load(open(meta_p)) if os.path.exists(meta_p) else {}
            meta.update({"name": a.name, "breaks_property": prop, "confirmed_on_repo_head": out["repo_head"],
                         "what_i_ran": {"demo_without_change_exit": out["demo_without"], "demo_with_change_exit": out["demo_with"],
                                        "baseline_suite_with_change": out.get("suite", "not re-run this time"),
                                        "demo_with_change_output_tail": out["demo_with_tail"]}})
            runs = meta.setdefault("check_runs", [])
            runs.append({"tier": a.tier, "seed": a.seed, "verif_commit": sh("git -C %s rev-parse --short HEAD" % ROOT).stdout.strip(),
                         "results": {c: {"rc": v["rc"], "summary": v["summary"], "first_violation": (v["first"] or [None])[0]} for c, v in out["checks"].items()}})
            meta["caught_by"] = sorted(set(meta.get("caught_by", [])) | set(out["caught_by"]))
            json.dump(meta, open(meta_p, "w"), indent=1)
        if a.final:
            # the last verification against the final trees: recorded whether or not the change still manifests
            meta_p = os.path.join(ROOT, "seeded", a.name, "meta.json")
            if os.path.exists(meta_p):
                meta = json.load(open(meta_p))
                meta["final_verification"] = {"repo_head": out["repo_head"], "verif_commit": sh("git -C %s rev-parse --short HEAD" % ROOT).stdout.strip(),
                                              "applies": out.get("applies"), "demo_without_change_exit": out.get("demo_without"), "demo_with_change_exit": out.get("demo_with"),
                                              "baseline_suite_with_change": out.get("suite"), "confirmed": out.get("confirmed"), "caught_by": out.get("caught_by"),
                                              "summaries": {c: v["summary"] for c, v in out.get("checks", {}).items()}}
                json.dump(meta, open(meta_p, "w"), indent=1)
    finally:
        sh("git -C /repo worktree remove --force %s" % wt); sh("rm -rf %s %s" % (nbc, wt))
    print(json.dumps(out, indent=1))
    return 0


if __name__ == "__main__":
    sys.exit(main())
