#!/bin/sh
# usage: tools/seedbatch.sh NAME... (e.g. C01a C01b) - verifies /tmp/seed_<Cxx>/<v> in parallel (4 at a time), prints one line each
cd "$(dirname "$0")/.."
for n in "$@"; do echo $n; done | xargs -P 4 -I{} sh -c 'p=$(echo {} | cut -c1-3); v=$(echo {} | cut -c4-); tools/seedtest.py ${SEED_DIR_PREFIX:-/tmp/seed_}$p/$v {} $SEEDTEST_ARGS > /tmp/st_{}.json 2>&1'
for n in "$@"; do /venv/bin/python -c "
import json,sys
s=open('/tmp/st_$n.json').read()
try:
    d=json.loads(s[s.index('{'):])
    print(d['name'],'confirmed',d.get('confirmed'),'applies',d.get('applies'),'demo',d.get('demo_without'),d.get('demo_with'),'suite',d.get('suite_ok'),'caught_by',d.get('caught_by'), {c:v['summary'].split('cases=')[1][:90] for c,v in d.get('checks',{}).items()})
except Exception as e: print('$n','ERR',e,s[-300:])
"; done
